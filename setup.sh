#!/bin/sh
# Build the overlay venv used by every check: /venv's packages + z3-solver, cvc5, jsonschema
# (offline, from the wheelhouse).  Idempotent.
set -e
cd "$(dirname "$0")"
if [ ! -x .venv/bin/python ] || ! .venv/bin/python -c "import z3, jsonschema" 2>/dev/null; then
  rm -rf .venv
  /venv/bin/python -m venv .venv
  SP=$(.venv/bin/python -c "import sysconfig; print(sysconfig.get_paths()['purelib'])")
  printf '%s\n' "/venv/lib/python3.12/site-packages" > "$SP/_verif_overlay.pth"
  PIP_NO_INDEX=1 .venv/bin/pip install -q --no-index --find-links /opt/veriftools/wheels z3-solver jsonschema cvc5 >/dev/null
fi
.venv/bin/python -c "import z3, jsonschema; print('setup ok: z3', z3.get_version_string())"
