"""Check runner: units -> parallel exploration -> known findings / replay -> evidence."""
from __future__ import annotations

import fnmatch
import asyncio
import json
import multiprocessing
import os
import subprocess
import sys
import time
import traceback

ROOT = os.path.dirname(os.path.dirname(os.path.abspath(__file__)))
EVIDENCE = os.environ.get("VERIF_EVIDENCE_DIR") or os.path.join(ROOT, "evidence")
REPLAYS = os.environ.get("VERIF_REPLAY_DIR") or os.path.join(ROOT, "replays")
KNOWN_FILE = os.path.join(ROOT, "known_findings.json")
SEED = int(os.environ.get("VERIF_SEED", "0") or 0)

EXIT_OK, EXIT_VIOLATION, EXIT_INCONCLUSIVE = 0, 1, 3


class Unit:
    def __init__(self, name, fn, **opts):
        self.name = name
        self.fn = fn
        self.opts = opts


def load_known(prop):
    if not os.path.exists(KNOWN_FILE):
        return []
    with open(KNOWN_FILE) as f:
        data = json.load(f)
    return [k for k in data.get("findings", []) if k.get("property") == prop and k.get("status") == "known"]


def _h_seq(data, a, b):
    """some byte a occurs before some byte b in data (bytes or symbolic bytes)"""
    from .core import Or, And
    n = len(data)
    terms = []
    for i in range(n):
        for j in range(i + 1, n):
            terms.append(And(data[i] == a, data[j] == b))
    if not terms:
        return False
    return Or(*terms)


_HELPERS = {"seq": _h_seq, "len": len}


def _match_known(known, unit, site, inputs):
    for k in known:
        if not fnmatch.fnmatchcase(unit, k.get("unit", "*")):
            continue
        if not fnmatch.fnmatchcase(site, k.get("site", "*")):
            continue
        w = k.get("when")
        if w:
            try:
                if not eval(w, {"__builtins__": {}}, dict(_HELPERS, **inputs)):
                    continue
            except Exception:
                continue
        return k
    return None


def _sym_pred(k, sym):
    w = k.get("when")
    if not w:
        return True
    env = dict(_HELPERS)
    for name, (kind, p) in sym.inputs.items():
        env[name] = p
    return eval(w, {"__builtins__": {}}, env)


def _replay_inproc(fn, site, inputs):
    """Run the scenario on concrete inputs in this process; True if `site` fails."""
    from .engine import Concrete
    from .core import CheckFailed, PathAbort
    from . import core
    saved = core._CTX
    core._CTX = None
    try:
        cc = Concrete(inputs, strict=True)
        try:
            fn(cc)
        except CheckFailed as e:
            # any failing check of the property on these concrete inputs is a reproduced violation
            # (the concrete run may trip an earlier assertion than the symbolic path did)
            return True, f"check {e.site} failed: {e.detail}"
        except PathAbort:
            return False, "aborted"
        except (Exception, asyncio.CancelledError) as e:
            # an exception the harness does not expect is a violation whatever its type (the symbolic and
            # the concrete run may trip over different statements of the same broken code)
            ok = site.startswith("unexpected:")
            return ok, f"raised {e!r}"
        return False, "all checks passed"
    finally:
        core._CTX = saved


def _run_unit(args):
    """Worker: explore one unit.  Returns a plain dict."""
    modname, unit_name, tier = args
    from .engine import Explorer, HarnessError, to_json
    import importlib
    t0 = time.time()
    out = {"unit": unit_name, "findings": [], "error": None}
    try:
        mod = importlib.import_module(modname)
        units = _units_of(mod, tier)
        u = units[unit_name]
        known = load_known(mod.PROPERTY)

        def cex(ex, sym, site, inputs, detail):
            ok, how = _replay_inproc(u.fn, site, inputs)
            if not ok:
                # the in-process re-run shares module state with the symbolic runs (a change that caches things at
                # module level can leak symbolic objects into it): decide in a fresh, un-instrumented interpreter
                import tempfile
                with tempfile.NamedTemporaryFile("w", suffix=".json", delete=False, dir=REPLAYS if os.path.isdir(REPLAYS) else None) as tf:
                    json.dump({"property": mod.PROPERTY, "module": modname, "tier": tier, "unit": unit_name, "site": site,
                               "inputs": to_json(inputs), "detail": ""}, tf, default=str)
                try:
                    if _fresh_replay(modname, tf.name) == EXIT_VIOLATION:
                        ok, how = True, "reproduced in a fresh interpreter (in-process re-run: " + how + ")"
                finally:
                    os.unlink(tf.name)
            if not ok:
                if site.startswith("unexpected:") and sym is not None:
                    # an exception only the symbolic run raises: an operation the proxies do not support.  The path
                    # is undecided (and the unit will be probed on concrete inputs), not a verdict either way
                    from .core import Inconclusive
                    raise Inconclusive(f"{site[11:]} raised on symbolic values only (unsupported operation?): "
                                       f"{str(detail)[:300]}")
                raise HarnessError(f"{unit_name}: counterexample at {site} does not reproduce on concrete "
                                   f"values ({how}); inputs={inputs}")
            k = _match_known(known, unit_name, site, inputs)
            d = "" if callable(detail) else detail   # lambdas are only evaluated on concrete values
            if k is not None:
                ex.findings.append(("known", site, inputs, f"{how}; {d}", k["id"]))
                return "known", (_sym_pred(k, sym) if sym is not None else None)
            ex.findings.append(("violation", site, inputs, f"{how}; {d}", None))
            return "violation", None

        opts = dict(u.opts)
        # no unit explores for ever: past the budget it is inconclusive (and probed), never silently passed
        opts.setdefault("time_budget", 600 if tier == "quick" else 5400)
        loop_bound = opts.pop("loop_bound", 64)
        ex = Explorer(u.fn, unit=unit_name, on_counterexample=cex, **opts)
        ex.loop_bound = loop_bound
        ex.run()
        out["stats"] = ex.stats.as_dict()
        out["samples"] = ex.samples
        out["notes"] = ex.notes
        out["exhaustive"] = ex.exhaustive
        out["findings"] = [(k, s, to_json(i), d, kid) for (k, s, i, d, kid) in ex.findings]
    except HarnessError as e:
        out["error"] = f"HARNESS-ERROR {e}"
    except BaseException as e:  # noqa
        out["error"] = f"HARNESS-ERROR {unit_name}: {e!r}\n{traceback.format_exc(limit=12)}"
    out["wall_s"] = time.time() - t0
    return out


_UNITS_CACHE = {}


def _units_of(mod, tier):
    key = (mod.__name__, tier)
    if key not in _UNITS_CACHE:
        us = list(mod.units(tier))
        d = {}
        for u in us:
            if u.name in d:
                raise RuntimeError(f"duplicate unit {u.name}")
            d[u.name] = u
        _UNITS_CACHE[key] = d
    return _UNITS_CACHE[key]


def run_check(modname, tier, jobs=None, only=None):
    from .engine import Stats
    import importlib
    t0 = time.time()
    mod = importlib.import_module(modname)
    prop = mod.PROPERTY
    try:
        units = _units_of(mod, tier)
    except Exception as e:  # noqa
        # enumerating the units runs library code on concrete values (tables, snapshot files): a failure there is
        # neither a verdict nor a pass
        print(f"[{prop} {tier}] HARNESS-ERROR unit enumeration failed: {e!r}\n{traceback.format_exc(limit=8)}")
        return EXIT_INCONCLUSIVE
    names = [n for n in units if only is None or fnmatch.fnmatchcase(n, only)]
    jobs = jobs or int(os.environ.get("VERIF_JOBS", "0") or 0) or min(16, os.cpu_count() or 4)
    results = []
    if jobs == 1 or len(names) <= 1:
        for n in names:
            results.append(_run_unit((modname, n, tier)))
    else:
        ctxm = multiprocessing.get_context("fork")
        with ctxm.Pool(min(jobs, len(names))) as pool:
            for r in pool.imap_unordered(_run_unit, [(modname, n, tier) for n in names], chunksize=1):
                results.append(r)
                if os.environ.get("VERIF_PROGRESS") == "1":
                    st = r.get("stats") or {}
                    print(f"  .. {r['unit']}: {r['wall_s']:.1f}s paths={st.get('paths')} "
                          f"{'ERROR' if r.get('error') else ''}", file=sys.stderr, flush=True)
    results.sort(key=lambda r: names.index(r["unit"]))

    total = Stats()
    samples, notes, errors, inconclusive = [], {}, [], []
    known_seen, violations = {}, []
    exhaustive = True
    for r in results:
        if r.get("error"):
            errors.append(r["error"])
            exhaustive = False
            continue
        total.merge(Stats.from_dict(r["stats"]))
        if len(samples) < 6 and r["samples"]:
            samples.append(r["samples"][0])
        for k, v in r["notes"].items():
            notes.setdefault(k, v)
        exhaustive = exhaustive and r["exhaustive"]
        for kind, site, inputs, detail, kid in r["findings"]:
            if kind == "known":
                known_seen.setdefault(kid, (r["unit"], site, inputs, detail))
            else:
                violations.append((r["unit"], site, inputs, detail))
    inconclusive = list(total.inconclusive)

    # vacuity: every declared site must have been reached on some path
    missing = []
    for site in getattr(mod, "SITES", []):
        if not any(fnmatch.fnmatchcase(s, site) for s in total.reach):
            missing.append(site)
    if only is None and missing:
        errors.append(f"HARNESS-ERROR vacuity: assertion site(s) never reached: {missing}")

    # replays in a fresh, un-instrumented interpreter
    os.makedirs(REPLAYS, exist_ok=True)
    all_known = {k["id"]: k for k in load_known(prop)}
    for kid, (unit, site, inputs, detail) in known_seen.items():
        path = os.path.join(REPLAYS, f"{prop}-known-{kid}.json")
        _write_replay(path, prop, modname, tier, unit, site, inputs, detail)
        rc = _fresh_replay(modname, path)
        if rc != EXIT_VIOLATION:
            errors.append(f"HARNESS-ERROR known finding {kid} does not reproduce in a fresh interpreter (rc={rc})")
        print(f"KNOWN-FINDING: property={prop} {kid}: {all_known[kid].get('what', '')}")
    vio_lines = []
    seen_v = set()
    for n, (unit, site, inputs, detail) in enumerate(violations):
        if (unit, site) in seen_v:
            continue
        seen_v.add((unit, site))
        path = os.path.join(REPLAYS, f"{prop}-{len(vio_lines) + 1}.json")
        _write_replay(path, prop, modname, tier, unit, site, inputs, detail)
        rc = _fresh_replay(modname, path)
        if rc != EXIT_VIOLATION:
            errors.append(f"HARNESS-ERROR counterexample for {unit}/{site} does not reproduce in a fresh "
                          f"interpreter (rc={rc}): {path}")
            continue
        vio_lines.append(f"VIOLATION property={prop} replay={path}")
        print(f"  unit={unit} site={site} :: {detail.splitlines()[0] if detail else ''}")
        print(vio_lines[-1])
        if len(vio_lines) >= 10:
            break

    wall = time.time() - t0
    ev = {
        "property_id": prop,
        "tier": tier,
        "seed": SEED,
        "level": "model_checking",
        "coverage": {
            "states": total.paths,
            "transitions": total.decisions,
            "traces_validated_against_impl": total.validated,
            "samples": samples or [{"note": "no completed path"}],
            "exhaustive": bool(exhaustive and not errors and not inconclusive),
            "explanation": "states = symbolic paths of the real code explored to completion; transitions = "
                           "solver-decided branch decisions; traces_validated = paths whose model was re-run "
                           "on concrete values through the same code and agreed on every observation",
            "units": len(names),
            "aborted_paths": total.aborted,
            "queries": total.queries,
            "solver_s": round(total.solver_s, 3),
            "checks_discharged": total.checks,
            "checks_trivially_true": total.checks_trivial,
            "overflow_obligations": total.obligations,
            "concrete_probe_runs_after_inconclusive": getattr(total, "probes", 0),
            "reach": total.reach,
            "functions_encoded": getattr(mod, "FUNCTIONS", []),
            "bounds": (mod.bounds(tier) if hasattr(mod, "bounds") else getattr(mod, "BOUNDS", {})),
            "shims": getattr(mod, "SHIMS", None) or _default_shims(),
            "notes": notes,
            "known_findings_seen": sorted(known_seen),
            "inconclusive": inconclusive[:20],
            "errors": [e[:2000] for e in errors[:10]],
            "max_decision_depth": total.max_depth,
        },
        "assumptions": getattr(mod, "ASSUMPTIONS", []),
        "wall_s": round(wall, 3),
        "violations": len(vio_lines),
    }
    os.makedirs(EVIDENCE, exist_ok=True)
    if only is None:
        with open(os.path.join(EVIDENCE, f"{prop}.json"), "w") as f:
            json.dump(ev, f, indent=1, default=str)
    print(f"[{prop} {tier}] units={len(names)} paths={total.paths} aborted={total.aborted} "
          f"decisions={total.decisions} queries={total.queries} solver={total.solver_s:.1f}s "
          f"validated={total.validated} checks={total.checks} known={sorted(known_seen)} "
          f"violations={len(vio_lines)} wall={wall:.1f}s")
    for e in errors[:10]:
        print(e[:3000])
    for e in inconclusive[:10]:
        print("INCONCLUSIVE", e[:1000])
    if vio_lines:
        return EXIT_VIOLATION
    if errors or inconclusive:
        return EXIT_INCONCLUSIVE
    return EXIT_OK


def _default_shims():
    from .loader import SHIM_NAMES
    return SHIM_NAMES


def _write_replay(path, prop, modname, tier, unit, site, inputs, detail):
    with open(path, "w") as f:
        json.dump({"property": prop, "module": modname, "tier": tier, "unit": unit, "site": site,
                   "inputs": inputs, "detail": detail}, f, indent=1, default=str)


def _fresh_replay(modname, path):
    env = dict(os.environ)
    env["VERIF_PLAIN"] = "1"
    p = subprocess.run([sys.executable, os.path.join(ROOT, "run.py"), modname.split(".")[-1],
                        "--replay", path], env=env, capture_output=True, text=True, timeout=600)
    if p.returncode not in (0, 1):
        sys.stdout.write(p.stdout[-2000:])
        sys.stdout.write(p.stderr[-2000:])
    return p.returncode


def replay(modname, path):
    """Concrete mode.  With VERIF_PLAIN=1 geckolib is imported normally (no
    loader, no value shims): the real code on plain Python values."""
    import importlib
    from .engine import Concrete, from_json
    from .core import CheckFailed, PathAbort
    with open(path) as f:
        rp = json.load(f)
    mod = importlib.import_module(modname)
    units = _units_of(mod, rp.get("tier", "quick"))
    if rp["unit"] not in units:
        units = _units_of(mod, "thorough")
    u = units[rp["unit"]]
    inputs = from_json(rp["inputs"])
    cc = Concrete(inputs, strict=True)
    try:
        u.fn(cc)
    except CheckFailed as e:
        print(f"check failed: {e}")
        print(f"VIOLATION property={mod.PROPERTY} replay={path}")
        return EXIT_VIOLATION
    except PathAbort:
        print("replay: precondition not met")
        return EXIT_OK
    except (Exception, asyncio.CancelledError) as e:
        if rp["site"].startswith("unexpected:"):
            print(f"raised: {e!r}")
            print(f"VIOLATION property={mod.PROPERTY} replay={path}")
            return EXIT_VIOLATION
        traceback.print_exc()
        return EXIT_INCONCLUSIVE
    print("replay: all checks passed")
    return EXIT_OK
