"""Instrumenting loader + shims for C boundaries.

`install()` puts $VERIF_REPO/src (default /repo/src) first on sys.path and loads
every geckolib.* module (except the generated pack tables) through an AST
transformer that routes
  * method calls on literal constants   b"".join(x)   "{0}".format(x)
  * f-strings
through dispatchers which use the real C implementation unless an argument is
symbolic.  After loading, `struct` and a closed whitelist of builtins are
rebound in each geckolib module's own namespace to proxy-aware wrappers.
Nothing in /repo is modified; there is no stored encoding.
"""
from __future__ import annotations

import ast
import builtins
import importlib.abc
import importlib.machinery
import os
import string
import struct as _struct
import sys

from . import core
from .core import (Inconclusive, SymInt, SymBool, SymFloat, SymBytesBase, SymFmt, Vec, Conc, is_sym,
                   mkint, And, bv, W)
import z3

REPO = os.environ.get("VERIF_REPO", "/repo")
SRC = os.path.join(REPO, "src")
PLAIN = os.environ.get("VERIF_PLAIN") == "1"   # replay mode: no loader, no value shims

FUNCTIONS_SEEN = set()


# ----------------------------------------------------------------------------
# dispatchers injected into every instrumented module


def _sx_cm(const, name, *args, **kw):
    if name == "join" and len(args) == 1 and not kw:
        return core.join(const, args[0])
    if name == "format" and isinstance(const, str):
        if any(is_sym(a) for a in args) or any(is_sym(a) for a in kw.values()):
            parts = []
            auto = 0
            for lit, field, spec, conv in string.Formatter().parse(const):
                if lit:
                    parts.append(lit)
                if field is None:
                    continue
                if field == "":
                    v = args[auto]
                    auto += 1
                elif field.isdigit():
                    v = args[int(field)]
                elif field in kw:
                    v = kw[field]
                else:
                    raise Inconclusive(f"format field {field!r} with symbolic arguments")
                parts.append((v, conv, spec or ""))
            return core.fstr(parts)
    if any(is_sym(a) for a in args):
        raise Inconclusive(f"{type(const).__name__}.{name} with a symbolic argument")
    return getattr(const, name)(*args, **kw)


def _sx_fstr(parts):
    return core.fstr(parts)


def _sx_module_shim(name, mod):
    import re as _real_re
    if name == "struct" and mod is _struct:
        return STRUCT_SHIM
    if name == "re" and mod is _real_re:
        from .rx import ReShim
        return ReShim()
    return mod


def _sx_getitem(obj, idx):
    """obj[idx]: a symbolic index into a list/tuple forks into 'in range' (then one
    path per feasible element) and a single 'out of range' path raising IndexError."""
    if isinstance(idx, SymInt) and isinstance(obj, (list, tuple)):
        n = len(obj)
        c = core.ctx()
        if c.decide(core.bterm(And(idx >= 0, idx < n))):
            return obj[c.concretize(idx)]
        if n and c.decide(core.bterm(And(idx < 0, idx >= -n))):
            return obj[c.concretize(idx)]
        raise IndexError("list index out of range")
    return obj[idx]


_LOG_METHODS = {"debug", "info", "warning", "error", "exception", "critical", "log"}
_LOG_NAMES = {"_LOGGER", "logger", "_logger", "LOGGER"}


LOGGING_IS_THE_SUBJECT = {"geckolib.utils.shell"}      # the snapshot writer *is* its logging calls


class _T(ast.NodeTransformer):
    def __init__(self, stub_logging=True):
        self.stub_logging = stub_logging

    def visit_Call(self, node):
        f = node.func
        # logging calls get empty bodies (their arguments are not even evaluated)
        if (self.stub_logging and isinstance(f, ast.Attribute) and f.attr in _LOG_METHODS and isinstance(f.value, ast.Name)
                and f.value.id in _LOG_NAMES):
            # nothing is formatted or emitted, but plain argument expressions are still evaluated (Python evaluates
            # them before the call: an index or attribute error in a log argument is real behaviour); string
            # building (f-strings, %, .format) is dropped - it would concretise symbolic values
            keep = []
            for a in node.args:
                if isinstance(a, (ast.Constant, ast.JoinedStr, ast.Name, ast.BinOp)):
                    continue
                if isinstance(a, ast.Call):
                    fn = a.func
                    name = fn.id if isinstance(fn, ast.Name) else (fn.attr if isinstance(fn, ast.Attribute) else "")
                    if name in ("str", "repr", "hex", "bin", "oct", "format", "join", "ascii"):
                        continue
                keep.append(self.visit(a))
            if not keep:
                return ast.copy_location(ast.Constant(None), node)
            return ast.copy_location(ast.Tuple(elts=keep, ctx=ast.Load()), node)
        self.generic_visit(node)
        if (isinstance(f, ast.Attribute) and isinstance(f.value, ast.Constant)
                and isinstance(f.value.value, (str, bytes))):
            new = ast.Call(func=ast.Name(id="_sx_cm", ctx=ast.Load()),
                           args=[f.value, ast.Constant(f.attr)] + node.args, keywords=node.keywords)
            return ast.copy_location(new, node)
        return node

    def visit_Import(self, node):
        # `import re` / `import struct` are rebound to the shims straight away, so that module-level uses
        # (a pattern compiled once at import time) go through them as well
        out = [node]
        for a in node.names:
            if a.name in ("re", "struct") and a.asname in (None, a.name):
                out.append(ast.copy_location(ast.Assign(
                    targets=[ast.Name(id=a.name, ctx=ast.Store())],
                    value=ast.Call(func=ast.Name(id="_sx_module_shim", ctx=ast.Load()),
                                   args=[ast.Constant(a.name), ast.Name(id=a.name, ctx=ast.Load())], keywords=[])), node))
        return out

    def visit_Subscript(self, node):
        self.generic_visit(node)
        if isinstance(node.ctx, ast.Load) and not isinstance(node.slice, (ast.Slice, ast.Tuple)):
            new = ast.Call(func=ast.Name(id="_sx_getitem", ctx=ast.Load()),
                           args=[node.value, node.slice], keywords=[])
            return ast.copy_location(new, node)
        return node

    def visit_JoinedStr(self, node):
        self.generic_visit(node)
        elts = []
        for v in node.values:
            if isinstance(v, ast.Constant):
                elts.append(v)
            else:
                conv = {-1: None, 115: "s", 114: "r", 97: "a"}[v.conversion]
                spec = v.format_spec if v.format_spec is not None else ast.Constant("")
                elts.append(ast.Tuple(elts=[v.value, ast.Constant(conv), spec], ctx=ast.Load()))
        new = ast.Call(func=ast.Name(id="_sx_fstr", ctx=ast.Load()),
                       args=[ast.List(elts=elts, ctx=ast.Load())], keywords=[])
        return ast.copy_location(new, node)


# ----------------------------------------------------------------------------
# builtin shims


def sx_len(x):
    if isinstance(x, SymBytesBase):
        return x.length          # may be a SymInt: arithmetic and comparisons keep working
    if isinstance(x, SymFmt):
        raise Inconclusive("len() of a formatted symbolic string")
    return builtins.len(x)


class _IntMeta(type):
    def __instancecheck__(cls, x):
        return isinstance(x, (int, SymInt))


class sx_int(metaclass=_IntMeta):
    """Stands in for the name `int` inside geckolib modules."""

    def __new__(cls, x=0, base=None):
        if base is not None:
            if isinstance(x, SymBytesBase):
                return int(x.concrete(), base)      # forks until the text is concrete
            if is_sym(x):
                raise Inconclusive("int(x, base) on symbolic text")
            return int(x, base)
        if isinstance(x, SymInt):
            return x
        if isinstance(x, SymBool):
            return mkint(bv(x), 0, 1)
        if isinstance(x, SymFloat):
            return x.trunc()
        if isinstance(x, core.SymRatio):
            c = int(x.c)
            if c == x.c and c & (c - 1) == 0:
                return x.n // c      # division by a power of two is exact in binary floating point
            raise Inconclusive("int() of a ratio-abstracted float with a non power-of-two divisor")
        if isinstance(x, SymFmt):
            return x.to_int()
        if isinstance(x, SymBytesBase):
            return int(x.concrete())
        return int(x)


class _FloatMeta(type):
    def __instancecheck__(cls, x):
        return isinstance(x, (float, SymFloat))


class sx_float(metaclass=_FloatMeta):
    def __new__(cls, x=0.0):
        if isinstance(x, (SymFloat, core.SymRatio)):
            return x
        if isinstance(x, (SymInt, SymBool)):
            return SymFloat.of(x)
        if is_sym(x):
            raise Inconclusive("float() of symbolic text")
        return float(x)


def sx_isinstance(x, cls):
    if isinstance(cls, tuple):
        return any(sx_isinstance(x, c) for c in cls)
    if is_sym(x):
        if cls is bool:
            return isinstance(x, SymBool)
        if cls is int or cls is sx_int:
            return isinstance(x, (SymInt, SymBool))
        if cls is float or cls is sx_float:
            return isinstance(x, (SymFloat, core.SymRatio))
        if cls is bytes:
            return isinstance(x, SymBytesBase) and not x.is_text
        if cls is str:
            return isinstance(x, SymFmt) or (isinstance(x, SymBytesBase) and x.is_text)
        if cls is object:
            return True
        return False
    if cls is sx_int:
        cls = int
    elif cls is sx_float:
        cls = float
    return builtins.isinstance(x, cls)


class sx_range:
    """range() whose bounds may be symbolic: the loop test forks."""

    def __init__(self, *a):
        if len(a) == 1:
            self.start, self.stop, self.step = 0, a[0], 1
        elif len(a) == 2:
            self.start, self.stop, self.step = a[0], a[1], 1
        else:
            self.start, self.stop, self.step = a
        if isinstance(self.step, SymInt):
            self.step = core.ctx().concretize(self.step)
        if not any(isinstance(v, SymInt) for v in (self.start, self.stop)):
            self._r = builtins.range(self.start, self.stop, self.step)
        else:
            self._r = None

    def __iter__(self):
        if self._r is not None:
            return iter(self._r)
        return self._gen()

    def _gen(self):
        i = self.start
        n = 0
        bound = core.ctx().ex.loop_bound if hasattr(core.ctx().ex, "loop_bound") else 64
        while True:
            go = (i < self.stop) if self.step > 0 else (i > self.stop)
            if go is False or (go is not True and not bool(go)):
                return
            n += 1
            if n > bound:
                raise Inconclusive(f"unwinding bound {bound} of a symbolic range() exceeded")
            yield i
            i = i + self.step

    def __len__(self):
        if self._r is not None:
            return len(self._r)
        raise Inconclusive("len(range) with symbolic bounds")


def sx_hex(x):
    if isinstance(x, SymInt):
        return builtins.hex(core.ctx().concretize(x))
    return builtins.hex(x)


def sx_min(*a, **kw):
    return builtins.min(*a, **kw)


# ----------------------------------------------------------------------------
# struct shim


class _Struct:
    error = _struct.error
    Struct = _struct.Struct

    @staticmethod
    def _parse(fmt):
        if isinstance(fmt, SymFmt):
            fmt = str(fmt)
        order = ">"
        body = fmt
        if fmt and fmt[0] in "<>!=@":
            order = ">" if fmt[0] in ">!" else "<"
            body = fmt[1:]
            if fmt[0] in "=@":
                order = "<"
        items = []
        num = ""
        for ch in body:
            if ch.isdigit():
                num += ch
                continue
            n = int(num) if num else 1
            num = ""
            if ch == "s":
                items.append(("s", n))
            elif ch == "x":
                items.extend([("x", 1)] * n)
            elif ch in "BbHhIi":
                items.extend([(ch, {"B": 1, "b": 1, "H": 2, "h": 2, "I": 4, "i": 4}[ch])] * n)
            elif ch == " ":
                continue
            else:
                raise Inconclusive(f"struct format {fmt!r} not modelled")
        return order, items

    @staticmethod
    def calcsize(fmt):
        return _struct.calcsize(fmt)

    @classmethod
    def pack(cls, fmt, *vals):
        if not (any(is_sym(v) for v in vals) or is_sym(fmt)):
            return _struct.pack(fmt, *vals)
        order, items = cls._parse(fmt)
        nvals = sum(1 for c, _ in items if c != "x")
        if nvals != len(vals):
            raise _struct.error(f"pack expected {nvals} items for packing (got {len(vals)})")
        out = []
        vi = 0
        for code, size in items:
            if code == "x":
                out.append(Conc(b"\x00"))
                continue
            v = vals[vi]
            vi += 1
            if code == "s":
                if isinstance(v, SymBytesBase):
                    n = v.clen()
                    if n is None:
                        raise Inconclusive("struct 's' with symbolic-length bytes")
                    items_ = v._items()[:size] + [0] * max(0, size - n)
                    out.append(Vec(items_))
                else:
                    out.append(Conc(_struct.pack(f"{size}s", v)))
                continue
            signed = code.islower()
            bits = size * 8
            lo, hi = (-(1 << (bits - 1)), (1 << (bits - 1)) - 1) if signed else (0, (1 << bits) - 1)
            if isinstance(v, SymBool):
                v = mkint(bv(v), 0, 1)
            if isinstance(v, (SymFloat, float)):
                raise _struct.error("required argument is not an integer")
            if isinstance(v, SymInt):
                ok = And(v >= lo, v <= hi)
                if ok is False or (ok is not True and not bool(ok)):
                    raise _struct.error(f"'{code}' format requires {lo} <= number <= {hi}")
                bs = [core._mkbyte(z3.Extract(8 * k + 7, 8 * k, v.t)) for k in range(size)]
                if order == ">":
                    bs.reverse()
                out.append(Vec(bs))
            else:
                out.append(Conc(_struct.pack(order + code, v)))
        return core.Cat(out).fold()

    @classmethod
    def unpack(cls, fmt, data):
        if not (isinstance(data, SymBytesBase) or is_sym(fmt)):
            return _struct.unpack(fmt, data)
        if isinstance(fmt, SymFmt):
            fmt = str(fmt)
        if not isinstance(data, SymBytesBase):
            return _struct.unpack(fmt, data)
        if data.is_text:
            raise TypeError("a bytes-like object is required, not 'str'")
        order, items = cls._parse(fmt)
        need = sum(s for _, s in items)
        n = data.length
        if isinstance(n, int):
            ok = n == need
        else:
            ok = bool(n == need)
        if not ok:
            raise _struct.error(f"unpack requires a buffer of {need} bytes")
        res = []
        off = 0
        for code, size in items:
            if code == "x":
                off += size
                continue
            if code == "s":
                res.append(data._cslice(off, off + size) if size else b"")
                off += size
                continue
            bs = [data._at(off + k) for k in range(size)]
            off += size
            if order == "<":
                bs.reverse()
            if all(isinstance(b, int) for b in bs):
                v = int.from_bytes(bytes(bs), "big", signed=code.islower())
                res.append(v)
                continue
            t = z3.Concat(*[core.b8(b) for b in bs]) if size > 1 else core.b8(bs[0])
            bits = size * 8
            if code.islower():
                res.append(mkint(z3.SignExt(W - bits, t), -(1 << (bits - 1)), (1 << (bits - 1)) - 1))
            else:
                res.append(mkint(z3.ZeroExt(W - bits, t), 0, (1 << bits) - 1))
        return tuple(res)


STRUCT_SHIM = _Struct()

SHIMS = {
    "len": sx_len,
    "int": sx_int,
    "float": sx_float,
    "isinstance": sx_isinstance,
    "range": sx_range,
    "hex": sx_hex,
    "_sx_cm": _sx_cm,
    "_sx_fstr": _sx_fstr,
    "_sx_getitem": _sx_getitem,
    "_sx_module_shim": _sx_module_shim,
}
SHIM_NAMES = ["struct.pack", "struct.unpack", "len", "int", "float", "isinstance", "range", "hex",
              "<const>.join", "<const>.format", "f-strings", "list[symbolic index]", "logging calls (empty bodies)", "re.search (class LIT(.*)LIT..., sx/rx.py)"]


class _Loader(importlib.machinery.SourceFileLoader):
    def get_code(self, fullname):
        path = self.get_filename(fullname)
        with open(path, "rb") as f:
            src = f.read()
        tree = ast.parse(src, filename=path)
        tree = _T(fullname not in LOGGING_IS_THE_SUBJECT).visit(tree)
        ast.fix_missing_locations(tree)
        return compile(tree, path, "exec", dont_inherit=True)

    def exec_module(self, module):
        module.__dict__.update(SHIMS)
        super().exec_module(module)
        d = module.__dict__
        if d.get("struct") is _struct:
            d["struct"] = STRUCT_SHIM
        import re as _real_re
        if d.get("re") is _real_re:
            from .rx import ReShim
            d["re"] = ReShim()
        for k, v in SHIMS.items():
            d[k] = v
        LOADED.append(module.__name__)


LOADED = []


class _Finder(importlib.abc.MetaPathFinder):
    def find_spec(self, name, path=None, target=None):
        if name != "geckolib" and not name.startswith("geckolib."):
            return None
        spec = importlib.machinery.PathFinder.find_spec(name, path)
        if spec is None or not spec.origin or not spec.origin.endswith(".py"):
            return spec
        if ".driver.packs." in name:
            return spec  # generated tables: pure data, loaded unmodified
        if not os.path.realpath(spec.origin).startswith(os.path.realpath(SRC)):
            return spec
        spec.loader = _Loader(name, spec.origin)
        return spec


_installed = False


def install():
    """Make `import geckolib` load the working tree of $VERIF_REPO, instrumented
    (or plain when VERIF_PLAIN=1, the fresh-interpreter replay mode)."""
    global _installed
    if _installed:
        return
    _installed = True
    sys.dont_write_bytecode = True
    if SRC not in sys.path:
        sys.path.insert(0, SRC)
    for k in [k for k in sys.modules if k == "geckolib" or k.startswith("geckolib.")]:
        del sys.modules[k]
    if not PLAIN:
        sys.meta_path.insert(0, _Finder())
    import logging
    # debug logging on (and swallowed): blocks guarded by isEnabledFor(DEBUG) are part of what users run
    logging.getLogger("geckolib").setLevel(logging.DEBUG)
    logging.getLogger("geckolib").addHandler(logging.NullHandler())
    logging.getLogger("geckolib").propagate = False
