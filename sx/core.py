"""sx core: proxy-based symbolic execution of real Python code over z3.

The code under test is *executed*; symbolic values are proxy objects wrapping z3
terms.  Every Python-level branch on a symbolic condition reaches
``SymBool.__bool__`` which asks the solver which sides are feasible under the
current path condition and forks.  Paths are explored depth-first by
re-execution under a recorded decision prefix.

Two modes share one harness API (class ``Sym`` / class ``Conc``): symbolic mode
returns proxies, concrete mode returns plain Python values taken from a model.
"""
from __future__ import annotations

import time
import z3

# ----------------------------------------------------------------------------
# control-flow exceptions: BaseException so that `except Exception` in the code
# under test cannot swallow them


class PathAbort(BaseException):
    """Current path ends here (infeasible continuation / assumption false)."""


class Inconclusive(BaseException):
    """The engine cannot decide something (unknown, budget, unsupported op)."""


class CheckFailed(BaseException):
    """Concrete-mode check failure."""

    def __init__(self, site, detail=""):
        super().__init__(f"{site}: {detail}")
        self.site = site
        self.detail = detail


W = 32  # bit width of symbolic Python ints (plus no-overflow obligations)
IMIN, IMAX = -(1 << (W - 1)), (1 << (W - 1)) - 1

_CTX = None  # the active symbolic context (one per process at a time)


def ctx():
    if _CTX is None:
        raise RuntimeError("no active sx context")
    return _CTX


def active():
    return _CTX is not None


# ----------------------------------------------------------------------------
# helpers


def is_sym(x):
    if isinstance(x, (SymInt, SymBool, SymFloat, SymBytesBase, SymFmt, SymRatio)):
        return True
    return type(x).__name__ == "SymReal"


def bv(x, w=W):
    """Python int or SymInt -> z3 bit-vector of width w."""
    if isinstance(x, SymInt):
        t = x.t
        if w == W:
            return t
        if w < W:
            return z3.Extract(w - 1, 0, t)
        return z3.SignExt(w - W, t)
    if isinstance(x, bool):
        x = int(x)
    if isinstance(x, int):
        return z3.BitVecVal(x, w)
    if isinstance(x, SymBool):
        return z3.If(x.t, z3.BitVecVal(1, w), z3.BitVecVal(0, w))
    raise TypeError(f"cannot convert {type(x).__name__} to bit-vector")


def _iv(x):
    if isinstance(x, SymInt):
        return x.lo, x.hi
    if isinstance(x, SymBool):
        return 0, 1
    x = int(x)
    return x, x


def _fits(lo, hi):
    return IMIN <= lo and hi <= IMAX


def mkint(t, lo, hi):
    """Wrap a z3 term as a SymInt, folding to a Python int when it is a literal."""
    t = z3.simplify(t) if not z3.is_bv_value(t) else t
    if z3.is_bv_value(t):
        return t.as_signed_long()
    # zero_extend(extract[h:0](x)) == x when x is an input known to lie in [0, 2^(h+1))
    # (a value that went through struct.pack / unpack keeps its identity and its interval)
    if _CTX is not None and getattr(_CTX, "intervals", None):
        e = None
        if z3.is_app_of(t, z3.Z3_OP_CONCAT) and t.num_args() == 2 and z3.is_bv_value(t.arg(0)) \
                and t.arg(0).as_long() == 0:
            e = t.arg(1)
        elif z3.is_app_of(t, z3.Z3_OP_ZERO_EXT):
            e = t.arg(0)
        if e is not None and z3.is_app_of(e, z3.Z3_OP_EXTRACT):
            h, l = e.params()
            x = e.arg(0)
            if l == 0 and x.size() == W:
                iv = _CTX.intervals.get(x.get_id())
                if iv is not None and iv[0] >= 0 and iv[1] < (1 << (h + 1)):
                    return SymInt(x, max(lo, iv[0]), min(hi, iv[1]))
    return SymInt(t, max(lo, IMIN), min(hi, IMAX))


def mkbool(t):
    if isinstance(t, bool):
        return t
    t = z3.simplify(t)
    if z3.is_true(t):
        return True
    if z3.is_false(t):
        return False
    return SymBool(t)


def bterm(x):
    """bool / SymBool -> z3 Bool."""
    if isinstance(x, SymBool):
        return x.t
    if isinstance(x, bool):
        return z3.BoolVal(x)
    if isinstance(x, (int, SymInt)):
        return bv(x) != 0
    raise TypeError(f"cannot convert {type(x).__name__} to Bool")


def And(*xs):
    return mkbool(z3.And(*[bterm(x) for x in xs]))


def Or(*xs):
    return mkbool(z3.Or(*[bterm(x) for x in xs]))


def Not(x):
    return mkbool(z3.Not(bterm(x)))


def Implies(a, b):
    return mkbool(z3.Implies(bterm(a), bterm(b)))


def Ite(c, a, b):
    """Value-level if-then-else on ints/bools (no fork)."""
    if isinstance(c, bool):
        return a if c else b
    if isinstance(a, (bool, SymBool)) and isinstance(b, (bool, SymBool)):
        return mkbool(z3.If(bterm(c), bterm(a), bterm(b)))
    la, ha = _iv(a)
    lb, hb = _iv(b)
    return mkint(z3.If(bterm(c), bv(a), bv(b)), min(la, lb), max(ha, hb))


# ----------------------------------------------------------------------------
# SymBool


class SymBool:
    __slots__ = ("t",)

    def __init__(self, t):
        self.t = t

    def __bool__(self):
        return ctx().decide(self.t)

    def __eq__(self, o):
        if isinstance(o, (bool, SymBool)):
            return mkbool(self.t == bterm(o))
        if isinstance(o, (int, SymInt)):
            return mkbool(bv(self) == bv(o))
        return False

    def __ne__(self, o):
        return Not(self.__eq__(o))

    def __and__(self, o):
        return And(self, o)

    __rand__ = __and__

    def __or__(self, o):
        return Or(self, o)

    __ror__ = __or__

    def __invert__(self):
        return Not(self)

    def __hash__(self):
        return hash(bool(self))

    def __int__(self):
        return int(bool(self))

    def __index__(self):
        return int(bool(self))

    def __repr__(self):
        return f"SymBool({self.t})"

    def __str__(self):
        return str(bool(self))


# ----------------------------------------------------------------------------
# SymInt


class SymInt:
    """Python int as a W-bit vector with an interval [lo,hi] over-approximation.

    An operation whose interval result does not fit in W bits adds a no-overflow
    obligation that must be discharged at the end of the path (else the path is
    inconclusive), so wrap-free bit-vector results coincide with Python ints.
    """

    __slots__ = ("t", "lo", "hi")

    def __init__(self, t, lo=IMIN, hi=IMAX):
        self.t = t
        self.lo = lo
        self.hi = hi

    # -- conversions that need a concrete value fork over the feasible values
    def __index__(self):
        return ctx().concretize(self)

    __int__ = __index__

    def __hash__(self):
        return hash(ctx().concretize(self))

    def __bool__(self):
        return ctx().decide(self.t != 0)

    def __repr__(self):
        return f"SymInt({self.t})"

    def __str__(self):
        return str(ctx().concretize(self))

    def __format__(self, spec):
        return format(ctx().concretize(self), spec)

    # -- arithmetic
    def _arith(self, o, op, rev=False):
        if isinstance(o, SymFloat) or isinstance(o, float):
            return NotImplemented
        if not isinstance(o, (int, SymInt, SymBool)):
            return NotImplemented
        a, b = (o, self) if rev else (self, o)
        la, ha = _iv(a)
        lb, hb = _iv(b)
        ta, tb = bv(a), bv(b)
        if op == "+":
            lo, hi = la + lb, ha + hb
            t = ta + tb
            if not _fits(lo, hi):
                ctx().oblige(z3.And(z3.BVAddNoOverflow(ta, tb, True), z3.BVAddNoUnderflow(ta, tb)))
        elif op == "-":
            lo, hi = la - hb, ha - lb
            t = ta - tb
            if not _fits(lo, hi):
                ctx().oblige(z3.And(z3.BVSubNoOverflow(ta, tb), z3.BVSubNoUnderflow(ta, tb, True)))
        elif op == "*":
            c = [la * lb, la * hb, ha * lb, ha * hb]
            lo, hi = min(c), max(c)
            t = ta * tb
            if not _fits(lo, hi):
                ctx().oblige(z3.And(z3.BVMulNoOverflow(ta, tb, True), z3.BVMulNoUnderflow(ta, tb)))
        else:
            raise AssertionError(op)
        return mkint(t, lo, hi)

    def __add__(self, o):
        return self._arith(o, "+")

    def __radd__(self, o):
        return self._arith(o, "+", True)

    def __sub__(self, o):
        return self._arith(o, "-")

    def __rsub__(self, o):
        return self._arith(o, "-", True)

    def __mul__(self, o):
        return self._arith(o, "*")

    def __rmul__(self, o):
        return self._arith(o, "*", True)

    def __neg__(self):
        return 0 - self

    def __pos__(self):
        return self

    def __abs__(self):
        return Ite(self < 0, -self, self)

    def _divmod(self, o, rev, want):
        if not isinstance(o, (int, SymInt)):
            return NotImplemented
        a, b = (o, self) if rev else (self, o)
        la, ha = _iv(a)
        lb, hb = _iv(b)
        ta, tb = bv(a), bv(b)
        # Python floor semantics == unsigned semantics only for a >= 0, b > 0
        if lb <= 0:
            if not ctx().decide(tb > 0):
                if ctx().decide(tb == 0):
                    raise ZeroDivisionError("integer division or modulo by zero")
                raise Inconclusive("division by a negative symbolic int is not modelled")
            lb = max(lb, 1)
        if la < 0:
            if not ctx().decide(ta >= 0):
                raise Inconclusive("division of a negative symbolic int is not modelled")
            la = max(la, 0)
        if want == "//":
            return mkint(z3.UDiv(ta, tb), la // hb, ha // lb)
        return mkint(z3.URem(ta, tb), 0, min(ha, hb - 1))

    def __floordiv__(self, o):
        return self._divmod(o, False, "//")

    def __rfloordiv__(self, o):
        return self._divmod(o, True, "//")

    def __mod__(self, o):
        return self._divmod(o, False, "%")

    def __rmod__(self, o):
        return self._divmod(o, True, "%")

    def __truediv__(self, o):
        if RATIO_MODE[0] and isinstance(o, (int, float)) and not isinstance(o, bool) and o > 0:
            return SymRatio(self, float(o))
        return SymFloat.of(self) / o

    def __rtruediv__(self, o):
        return SymFloat.of(o) / SymFloat.of(self)

    # -- bit operations
    def _bit(self, o, op, rev=False):
        if not isinstance(o, (int, SymInt, SymBool)):
            return NotImplemented
        a, b = (o, self) if rev else (self, o)
        la, ha = _iv(a)
        lb, hb = _iv(b)
        ta, tb = bv(a), bv(b)
        if op == "&":
            t = ta & tb
            if la >= 0 and lb >= 0:
                lo, hi = 0, min(ha, hb)
            elif la >= 0:
                lo, hi = 0, ha
            elif lb >= 0:
                lo, hi = 0, hb
            else:
                lo, hi = IMIN, IMAX
        elif op in ("|", "^"):
            t = (ta | tb) if op == "|" else (ta ^ tb)
            if la >= 0 and lb >= 0:
                n = max(ha.bit_length(), hb.bit_length())
                lo, hi = 0, (1 << n) - 1
            else:
                lo, hi = IMIN, IMAX
        else:
            raise AssertionError(op)
        return mkint(t, lo, hi)

    def __and__(self, o):
        return self._bit(o, "&")

    def __rand__(self, o):
        return self._bit(o, "&", True)

    def __or__(self, o):
        return self._bit(o, "|")

    def __ror__(self, o):
        return self._bit(o, "|", True)

    def __xor__(self, o):
        return self._bit(o, "^")

    def __rxor__(self, o):
        return self._bit(o, "^", True)

    def __invert__(self):
        return mkint(~self.t, -self.hi - 1, -self.lo - 1)

    def __lshift__(self, o):
        if isinstance(o, SymInt):
            o = ctx().concretize(o)
        if o < 0:
            raise ValueError("negative shift count")
        lo, hi = self.lo << o, self.hi << o
        if not _fits(lo, hi):
            # shifted-out bits must be sign bits
            ctx().oblige((self.t << o) >> o == self.t)
        return mkint(self.t << o, lo, hi)

    def __rlshift__(self, o):
        n = ctx().concretize(self)
        return o << n

    def __rshift__(self, o):
        if isinstance(o, SymInt):
            o = ctx().concretize(o)
        if o < 0:
            raise ValueError("negative shift count")
        return mkint(self.t >> o, self.lo >> o, self.hi >> o)  # arithmetic shift == floor

    def __rrshift__(self, o):
        n = ctx().concretize(self)
        return o >> n

    # -- comparisons (signed)
    def _cmp(self, o, f):
        if isinstance(o, (float, SymFloat)):
            return getattr(SymFloat.of(self), f)(o)
        if not isinstance(o, (int, SymInt, SymBool)):
            return NotImplemented
        a, b = bv(self), bv(o)
        lo2, hi2 = _iv(o)
        if f == "__lt__":
            if self.hi < lo2:
                return True
            if self.lo >= hi2:
                return False
            return mkbool(a < b)
        if f == "__le__":
            if self.hi <= lo2:
                return True
            if self.lo > hi2:
                return False
            return mkbool(a <= b)
        if f == "__gt__":
            if self.lo > hi2:
                return True
            if self.hi <= lo2:
                return False
            return mkbool(a > b)
        if f == "__ge__":
            if self.lo >= hi2:
                return True
            if self.hi < lo2:
                return False
            return mkbool(a >= b)
        raise AssertionError(f)

    def __lt__(self, o):
        return self._cmp(o, "__lt__")

    def __le__(self, o):
        return self._cmp(o, "__le__")

    def __gt__(self, o):
        return self._cmp(o, "__gt__")

    def __ge__(self, o):
        return self._cmp(o, "__ge__")

    def __eq__(self, o):
        if isinstance(o, (float, SymFloat)):
            return SymFloat.of(self) == o
        if not isinstance(o, (int, SymInt, SymBool)):
            return False
        lo2, hi2 = _iv(o)
        if self.hi < lo2 or self.lo > hi2:
            return False
        return mkbool(self.t == bv(o))

    def __ne__(self, o):
        r = self.__eq__(o)
        return Not(r)

    def bit_length(self):
        return ctx().concretize(self).bit_length()

    def to_bytes(self, length=1, byteorder="big", *, signed=False):
        """int.to_bytes for 1-, 2- and 4-byte widths through the struct model (OverflowError like CPython)."""
        from .loader import STRUCT_SHIM
        import struct as _st
        code = {1: "b", 2: "h", 4: "i"}.get(length)
        if code is None or byteorder not in ("big", "little"):
            raise Inconclusive(f"int.to_bytes(length={length!r}, byteorder={byteorder!r}) on a symbolic int")
        try:
            return STRUCT_SHIM.pack((">" if byteorder == "big" else "<") + (code if signed else code.upper()), self)
        except _st.error as e:
            raise OverflowError(str(e))


# ----------------------------------------------------------------------------
# SymRatio: the double nearest n/c for a symbolic integer n and a positive constant c,
# compared through n.  Sound for |n| < 2**31 because rounding is monotone and distinct
# integers give quotients at least 1/c apart (the strictness lemma is discharged in
# IEEE arithmetic by C14's `monotone.*` units).  Enabled per unit (RATIO_MODE).

RATIO_MODE = [False]


class SymRatio:
    __slots__ = ("n", "c")

    def __init__(self, n, c):
        self.n = n
        self.c = c

    def __bool__(self):
        # the double nearest n/c is zero exactly when n is (|n/c| >= 1/c for any other n, far above the subnormals)
        return bool(self.n != 0)

    def _other(self, o):
        if isinstance(o, SymRatio) and o.c == self.c:
            return o.n
        raise Inconclusive("comparison of a ratio-abstracted float with a different kind of value")

    def _pair(self, o):
        """(a, b) integers with  self ? o  <=>  a ? b.  Same divisor: the numerators.  Different integral
        divisors: cross-multiplied (distinct quotients n1/c1, n2/c2 differ by >= 1/(c1*c2), far above one ulp,
        so the comparison of the doubles equals the comparison of the rationals)."""
        if isinstance(o, SymRatio):
            if o.c == self.c:
                return self.n, o.n
            c1, c2 = int(self.c), int(o.c)
            if c1 == self.c and c2 == o.c:
                return self.n * c2, o.n * c1
        raise Inconclusive("comparison of a ratio-abstracted float with a different kind of value")

    def _shift(self, d, sign):
        """n/c +- d for a concrete d with d*c integral (e.g. a half-degree dead band): (n +- d*c)/c"""
        if isinstance(d, (int, float)) and not isinstance(d, bool):
            k = d * self.c
            if k == int(k):
                return SymRatio(self.n + sign * int(k), self.c)
        raise Inconclusive("arithmetic on a ratio-abstracted float that the abstraction does not cover")

    def __add__(self, d):
        return self._shift(d, 1)

    __radd__ = __add__

    def __sub__(self, d):
        return self._shift(d, -1)

    def __lt__(self, o):
        a, b = self._pair(o)
        return a < b

    def __le__(self, o):
        a, b = self._pair(o)
        return a <= b

    def __gt__(self, o):
        a, b = self._pair(o)
        return a > b

    def __ge__(self, o):
        a, b = self._pair(o)
        return a >= b

    def __eq__(self, o):
        if isinstance(o, (int, float)) and not isinstance(o, bool):
            # n/c == x for a concrete x: by injectivity only the integer m with m/c == x can match
            m = round(o * self.c)
            if m / self.c == o:
                return self.n == m
            return False
        if not isinstance(o, SymRatio):
            return False if not isinstance(o, (SymInt, SymFloat)) else self._other(o)
        a, b = self._pair(o)
        return a == b

    def __ne__(self, o):
        return Not(self.__eq__(o))

    def __hash__(self):
        raise Inconclusive("hash of a symbolic float")

    def __format__(self, spec):
        format(1.5, spec)          # an invalid spec still raises, as it would on a real float
        return "<float>"

    def __repr__(self):
        return f"SymRatio({self.n}/{self.c})"


# ----------------------------------------------------------------------------
# SymFloat: IEEE-754 double, RNE


F64 = z3.Float64()
RNE = z3.RNE()
RTZ = z3.RTZ()


class SymFloat:
    __slots__ = ("t",)

    def __init__(self, t):
        self.t = t

    @staticmethod
    def of(x):
        if isinstance(x, SymFloat):
            return x
        if isinstance(x, SymInt):
            return SymFloat(z3.fpSignedToFP(RNE, x.t, F64))
        if isinstance(x, (int, float)):
            return SymFloat(z3.FPVal(float(x), F64))
        if isinstance(x, SymBool):
            return SymFloat.of(mkint(bv(x), 0, 1))
        raise TypeError(type(x))

    def _bin(self, o, f, rev=False):
        if not isinstance(o, (int, float, SymInt, SymFloat)):
            return NotImplemented
        a, b = SymFloat.of(self).t, SymFloat.of(o).t
        if rev:
            a, b = b, a
        return SymFloat(f(RNE, a, b))

    def __add__(self, o):
        return self._bin(o, z3.fpAdd)

    def __radd__(self, o):
        return self._bin(o, z3.fpAdd, True)

    def __sub__(self, o):
        return self._bin(o, z3.fpSub)

    def __rsub__(self, o):
        return self._bin(o, z3.fpSub, True)

    def __mul__(self, o):
        return self._bin(o, z3.fpMul)

    def __rmul__(self, o):
        return self._bin(o, z3.fpMul, True)

    def __truediv__(self, o):
        if not isinstance(o, (SymInt, SymFloat)) and o == 0:
            raise ZeroDivisionError("float division by zero")
        return self._bin(o, z3.fpDiv)

    def __rtruediv__(self, o):
        return self._bin(o, z3.fpDiv, True)

    def __neg__(self):
        return SymFloat(z3.fpNeg(self.t))

    def __abs__(self):
        return SymFloat(z3.fpAbs(self.t))

    def _cmp(self, o, f):
        if not isinstance(o, (int, float, SymInt, SymFloat)):
            return NotImplemented
        return mkbool(f(self.t, SymFloat.of(o).t))

    def __lt__(self, o):
        return self._cmp(o, z3.fpLT)

    def __le__(self, o):
        return self._cmp(o, z3.fpLEQ)

    def __gt__(self, o):
        return self._cmp(o, z3.fpGT)

    def __ge__(self, o):
        return self._cmp(o, z3.fpGEQ)

    def __eq__(self, o):
        if not isinstance(o, (int, float, SymInt, SymFloat)):
            return False
        return mkbool(z3.fpEQ(self.t, SymFloat.of(o).t))

    def __ne__(self, o):
        return Not(self.__eq__(o))

    def __hash__(self):
        raise Inconclusive("hash of a symbolic float")

    def __bool__(self):
        return ctx().decide(z3.Not(z3.fpIsZero(self.t)))

    def trunc(self):
        """int(f): round toward zero; obligation: finite and inside W bits."""
        c = ctx()
        lim = float(1 << (W - 2))
        c.oblige(z3.And(z3.Not(z3.fpIsNaN(self.t)), z3.Not(z3.fpIsInf(self.t)),
                        z3.fpLT(self.t, z3.FPVal(lim, F64)), z3.fpGT(self.t, z3.FPVal(-lim, F64))))
        return mkint(z3.fpToSBV(RTZ, self.t, z3.BitVecSort(W)), -(1 << (W - 2)), 1 << (W - 2))

    def __repr__(self):
        return f"SymFloat({self.t})"

    def __format__(self, spec):
        format(1.5, spec)
        return "<float>"


# ----------------------------------------------------------------------------
# symbolic byte strings: lazy functional representation.
#   length : int | SymInt         at(i) : int | SymInt (0..255)


def _mkbyte(t):
    """z3 8-bit term -> int or SymInt in 0..255 (zero-extended to W)."""
    if z3.is_bv_value(t):
        return t.as_long()
    return mkint(z3.ZeroExt(W - 8, t), 0, 255)


def b8(x):
    """int / SymInt byte value -> 8-bit z3 term."""
    if isinstance(x, int):
        return z3.BitVecVal(x, 8)
    t = x.t
    # strip a ZeroExt(24, t8) wrapper cheaply
    if z3.is_app_of(t, z3.Z3_OP_ZERO_EXT) and t.arg(0).size() == 8:
        return t.arg(0)
    return z3.simplify(z3.Extract(7, 0, t))


def _memo_at(fn):
    """Memoise _at per object and index term (nested views share sub-terms)."""
    def at(self, i):
        memo = self.__dict__.setdefault("_memo", {})
        key = i if isinstance(i, int) else ("t", i.t.get_id())
        hit = memo.get(key)
        if hit is not None:
            return hit[0]
        r = fn(self, i)
        memo[key] = (r, i)      # keep the index term alive so its id is not reused
        return r
    return at


class SymBytesBase:
    """Abstract symbolic byte string.  Subclasses define .length and _at(i)."""

    is_text = False  # True for str built by .decode('latin1')

    # ---- primitive interface
    @property
    def length(self):
        raise NotImplementedError

    def _at(self, i):
        """Byte at index i (0 <= i < length assumed).  i is int or SymInt."""
        raise NotImplementedError

    # ---- derived
    def clen(self):
        """Concrete length or None."""
        n = self.length
        return n if isinstance(n, int) else None

    def __len__(self):
        n = self.length
        if isinstance(n, int):
            return n
        return ctx().concretize(n)

    def _wrap(self, other):
        if isinstance(other, SymBytesBase):
            return other
        if isinstance(other, (bytes, bytearray)):
            return Conc(bytes(other))
        if isinstance(other, str) and self.is_text:
            return Conc(other.encode("latin1"), True)
        return None

    def _mk(self, obj):
        obj.is_text = self.is_text
        return obj

    def __getitem__(self, k):
        n = self.length
        if isinstance(k, slice):
            if k.step not in (None, 1):
                raise Inconclusive("extended slice on symbolic bytes")
            lo, hi = k.start, k.stop
            return self._mk(self._slice(lo, hi))
        # integer index
        if isinstance(k, int) and isinstance(n, int):
            if k < 0:
                k += n
            if not 0 <= k < n:
                raise IndexError("index out of range")
            r = self._at(k)
        else:
            c = ctx()
            if isinstance(k, int) and k < 0:
                k = k + n
            if not c.decide(bterm(And(k >= 0, k < n))):
                raise IndexError("index out of range")
            r = self._at(k)
        if self.is_text:
            return self._mk(Vec([r]))
        return r

    def _slice(self, lo, hi):
        n = self.length
        c = _CTX

        def norm(v, default):
            if v is None:
                return default
            if isinstance(v, int) and isinstance(n, int):
                if v < 0:
                    v = max(v + n, 0)
                return min(v, n)
            # symbolic bound: usually provably inside [0, n] -> no clamp, no fork
            if c.prove(And(v >= 0, v <= n)):
                return v
            if isinstance(v, int) and v < 0:
                v = v + n
                if c.decide(bterm(v < 0)):
                    return 0
                return v
            if c.decide(bterm(v < 0)):
                v = v + n
                if c.decide(bterm(v < 0)):
                    return 0
                return v
            if c.decide(bterm(v > n)):
                return n
            return v

        lo = norm(lo, 0)
        hi = norm(hi, n)
        if isinstance(lo, int) and isinstance(hi, int):
            if hi <= lo:
                return Conc(b"")
            return self._cslice(lo, hi)
        if c.prove(hi >= lo):
            ln = hi - lo          # may be zero: an empty view is fine
        elif c.decide(bterm(hi <= lo)):
            return Conc(b"")
        else:
            ln = hi - lo
        if isinstance(ln, int):
            if ln == 0:
                return Conc(b"")
            if isinstance(lo, int):
                return self._cslice(lo, lo + ln)
        return View(self, lo, ln)

    def _cslice(self, lo, hi):
        """Slice with concrete, normalised bounds 0 <= lo < hi <= length."""
        if isinstance(self.length, int) and hi - lo <= 4096:
            return Vec([self._at(i) for i in range(lo, hi)]).fold()
        return View(self, lo, hi - lo)

    def __iter__(self):
        n = len(self)
        for i in range(n):
            yield self[i]

    def __add__(self, o):
        o = self._wrap(o)
        if o is None:
            return NotImplemented
        return self._mk(Cat([self, o]).fold())

    def __radd__(self, o):
        o = self._wrap(o)
        if o is None:
            return NotImplemented
        return self._mk(Cat([o, self]).fold())

    def eq_term(self, o):
        """SymBool/bool: contents equal.  Needs a concrete length on one side."""
        o = self._wrap(o)
        if o is None:
            return False
        n1, n2 = self.length, o.length
        if isinstance(n1, int) and isinstance(n2, int):
            if n1 != n2:
                return False
            n = n1
            cond = []
        elif isinstance(n1, int) or isinstance(n2, int):
            n = n1 if isinstance(n1, int) else n2
            cond = [bterm(n1 == n2)]
        else:
            raise Inconclusive("== on two byte strings of symbolic length (use sx.check_bytes_equal)")
        for i in range(n):
            a, b = self._at(i), o._at(i)
            if isinstance(a, int) and isinstance(b, int):
                if a != b:
                    return False
                continue
            cond.append(b8(a) == b8(b))
        if not cond:
            return True
        return mkbool(z3.And(*cond))

    def __eq__(self, o):
        if isinstance(o, str) and not self.is_text:
            return False
        if isinstance(o, (bytes, bytearray)) and self.is_text:
            return False
        return self.eq_term(o)

    def __ne__(self, o):
        return Not(self.__eq__(o))

    def __hash__(self):
        return hash(self.concrete())

    def __bool__(self):
        n = self.length
        if isinstance(n, int):
            return n > 0
        return ctx().decide(n.t != 0)

    def concrete(self):
        """Fork until every byte is concrete; return bytes/str."""
        n = len(self)
        out = bytes(int(self._at(i)) if not isinstance(self._at(i), int) else self._at(i) for i in range(n))
        return out.decode("latin1") if self.is_text else out

    def startswith(self, p, start=0):
        if isinstance(p, tuple):
            for q in p:
                if self.startswith(q):
                    return True
            return False
        p = self._wrap(p)
        k = p.clen()
        if k is None:
            raise Inconclusive("startswith with symbolic-length prefix")
        n = self.length
        if isinstance(n, int):
            if n < k:
                return False
            return self._cslice(0, k).eq_term(p) if k else True
        if k == 0:
            return True
        return And(n >= k, View(self, 0, k).eq_term(p))

    def endswith(self, p):
        p = self._wrap(p)
        k = p.clen()
        if k is None:
            raise Inconclusive("endswith with symbolic-length suffix")
        n = self.length
        if isinstance(n, int):
            if n < k:
                return False
            return self._cslice(n - k, n).eq_term(p) if k else True
        if k == 0:
            return True
        return And(n >= k, View(self, n - k, k).eq_term(p))

    def find_positions(self, sep):
        """Concrete list of start positions where `sep` (concrete bytes) occurs,
        non-overlapping, left to right -- forks on every candidate position."""
        n = len(self)
        k = len(sep)
        pos = []
        i = 0
        while i + k <= n:
            hit = self._cslice(i, i + k).eq_term(Conc(sep))
            if hit is True or (hit is not False and bool(hit)):
                pos.append(i)
                i += k
            else:
                i += 1
        return pos

    def split(self, sep=None, maxsplit=-1):
        if sep is None:
            raise Inconclusive("split() without separator on symbolic bytes")
        if isinstance(sep, str):
            sep = sep.encode("latin1")
        n = len(self)
        out = []
        last = 0
        for p in self.find_positions(bytes(sep)):
            if maxsplit >= 0 and len(out) >= maxsplit:
                break
            out.append(self._mk(self._cslice(last, p) if p > last else Conc(b"")))
            last = p + len(sep)
        out.append(self._mk(self._cslice(last, n) if n > last else Conc(b"")))
        return out

    def find(self, sub, start=0, end=None):
        """first occurrence (forks on the candidate positions, left to right)"""
        if isinstance(sub, str):
            sub = sub.encode("latin1")
        if isinstance(sub, SymBytesBase):
            sub = sub.concrete()
        if not isinstance(start, int) or not (end is None or isinstance(end, int)):
            raise Inconclusive("find() with symbolic bounds")
        n = len(self)
        end = n if end is None else min(end, n)
        k = len(sub)
        i = max(start, 0)
        while i + k <= end:
            hit = self._cslice(i, i + k).eq_term(Conc(bytes(sub)))
            if hit is True or (hit is not False and bool(hit)):
                return i
            i += 1
        return -1

    def index(self, sub, start=0, end=None):
        r = self.find(sub, start, end)
        if r < 0:
            raise ValueError("subsection not found")
        return r

    def __contains__(self, item):
        if isinstance(item, (int, SymInt)):
            n = len(self)
            return bool(Or(*[self._at(i) == item for i in range(n)])) if n else False
        if isinstance(item, str):
            item = item.encode("latin1")
        return len(self.find_positions(bytes(item))[:1]) > 0

    def decode(self, encoding="utf-8", errors="strict"):
        if encoding.lower().replace("-", "").replace("_", "") == "utf8":
            return self._decode_utf8(errors)
        if encoding.lower().replace("-", "") not in ("latin1", "iso88591"):
            raise Inconclusive(f"decode({encoding}) on symbolic bytes")
        r = View(self, 0, self.length) if not isinstance(self, (Vec, Conc)) else Vec(list(self._items()))
        r.is_text = True
        return r

    def encode(self, encoding="utf-8", errors="strict"):
        if encoding.lower().replace("-", "").replace("_", "") == "utf8":
            return self._encode_utf8()
        if encoding.lower().replace("-", "") not in ("latin1", "iso88591"):
            raise Inconclusive(f"encode({encoding}) on symbolic str")
        r = View(self, 0, self.length) if not isinstance(self, (Vec, Conc)) else Vec(list(self._items()))
        r.is_text = False
        return r

    def _items(self):
        return [self._at(i) for i in range(self.clen())]

    # UTF-8 for text whose characters are code points 0..255 (all this representation holds): one fork per
    # symbolic character / lead byte
    def _encode_utf8(self):
        if self.clen() is None:
            raise Inconclusive("encode(utf-8) on text of symbolic length")
        out = []
        for ch in self._items():
            if isinstance(ch, int):
                out.extend(chr(ch).encode("utf-8"))
            elif bool(ch < 128):
                out.append(ch)
            else:
                out.append((ch >> 6) | 0xC0)
                out.append((ch & 0x3F) | 0x80)
        r = Vec(out)
        r.is_text = False
        return r

    def _decode_utf8(self, errors):
        if errors != "strict":
            raise Inconclusive(f"decode(utf-8, {errors}) on symbolic bytes")
        if self.clen() is None:
            raise Inconclusive("decode(utf-8) on bytes of symbolic length")
        items = self._items()
        n = len(items)

        def bad(i, why):
            return UnicodeDecodeError("utf-8", b"\x00" * n, i, i + 1, why)

        def cont(j):
            return j < n and bool(And(items[j] >= 0x80, items[j] <= 0xBF))
        out, i = [], 0
        while i < n:
            b = items[i]
            if bool(b < 128):
                out.append(b)
                i += 1
            elif bool(b < 0xC2):
                raise bad(i, "invalid start byte")
            elif bool(b <= 0xC3):
                if not cont(i + 1):
                    raise bad(i, "invalid continuation byte" if i + 1 < n else "unexpected end of data")
                out.append(((b & 3) << 6) | (items[i + 1] & 0x3F))
                i += 2
            elif bool(b > 0xF4):
                raise bad(i, "invalid start byte")
            else:
                if not cont(i + 1):
                    raise bad(i, "invalid continuation byte" if i + 1 < n else "unexpected end of data")
                raise Inconclusive("utf-8 sequence for a code point above 255 in symbolic bytes")
        r = Vec(out)
        r.is_text = True
        return r

    def partition(self, sep):
        parts = self.split(sep, 1)
        if len(parts) == 2:
            return parts[0], sep, parts[1]
        empty = self._mk(Conc(b"", self.is_text))
        return self, empty, empty

    def strip(self, chars=None):
        """leading/trailing whitespace (or the characters of a concrete `chars`) removed: forks on the symbolic
        characters at the ends"""
        return self._strip(chars, True, True)

    def lstrip(self, chars=None):
        return self._strip(chars, True, False)

    def rstrip(self, chars=None):
        return self._strip(chars, False, True)

    def _strip(self, chars, left, right):
        if chars is None:
            cs = (32, 9, 10, 11, 12, 13)
        elif isinstance(chars, (bytes, bytearray)):
            cs = tuple(sorted(set(chars)))
        elif isinstance(chars, str):
            cs = tuple(sorted(set(chars.encode("latin1"))))
        elif isinstance(chars, SymBytesBase):
            cs = tuple(sorted(set(chars.concrete())))
        else:
            raise Inconclusive("strip() with an argument of an unsupported type")
        n = len(self)
        items = self._all()

        def member(b):
            if isinstance(b, int):
                return b in cs
            return bool(Or(*[b == c for c in cs])) if cs else False
        lo, hi = 0, n
        while left and lo < hi and member(items[lo]):
            lo += 1
        while right and hi > lo and member(items[hi - 1]):
            hi -= 1
        return self._mk(Vec(items[lo:hi]).fold())

    def lower(self):
        return self._mk(Vec([_lower(b) for b in self._all()]))

    def upper(self):
        return self._mk(Vec([_upper(b) for b in self._all()]))

    def _all(self):
        return [self._at(i) for i in range(len(self))]

    def hex(self):
        return self.concrete().hex()

    def __repr__(self):
        return f"<{type(self).__name__} len={self.length}>"

    def __str__(self):
        if self.is_text:
            return self.concrete()
        return repr(self.concrete())

    def __format__(self, spec):
        return format(self.concrete() if self.is_text else repr(self.concrete()), spec)


def _lower(b):
    if isinstance(b, int):
        return ord(chr(b).lower()) if chr(b).lower().encode("latin1", "ignore") else b
    isup = And(b >= 65, b <= 90)
    isup2 = And(b >= 192, b <= 222, b != 215)
    return Ite(Or(isup, isup2), b + 32, b)


def _upper(b):
    if isinstance(b, int):
        u = chr(b).upper()
        return ord(u) if len(u) == 1 and ord(u) < 256 else b
    islo = And(b >= 97, b <= 122)
    islo2 = And(b >= 224, b <= 254, b != 247)
    return Ite(Or(islo, islo2), b - 32, b)


class Conc(SymBytesBase):
    def __init__(self, data, is_text=False):
        self.data = bytes(data)
        self.is_text = is_text

    @property
    def length(self):
        return len(self.data)

    def _at(self, i):
        if isinstance(i, int):
            return self.data[i]
        n = len(self.data)
        if n == 0:
            return 0
        if n <= 64:
            t = z3.BitVecVal(self.data[n - 1], 8)
            for j in range(n - 2, -1, -1):
                t = z3.If(i.t == j, z3.BitVecVal(self.data[j], 8), t)
            return _mkbyte(t)
        arr = _const_array(self.data)
        return _mkbyte(z3.Select(arr, i.t))

    def fold(self):
        return self


_CONST_ARRAYS = {}


def _const_array(data):
    a = _CONST_ARRAYS.get(data)
    if a is None:
        a = z3.K(z3.BitVecSort(W), z3.BitVecVal(0, 8))
        for j, b in enumerate(data):
            if b:
                a = z3.Store(a, z3.BitVecVal(j, W), z3.BitVecVal(b, 8))
        _CONST_ARRAYS[data] = a
    return a


class Vec(SymBytesBase):
    """Concrete-length vector; items are ints or SymInts (0..255)."""

    def __init__(self, items):
        self.items = list(items)

    @property
    def length(self):
        return len(self.items)

    def _at(self, i):
        if isinstance(i, int):
            return self.items[i]
        n = len(self.items)
        if n == 0:
            return 0
        t = b8(self.items[n - 1])
        for j in range(n - 2, -1, -1):
            t = z3.If(i.t == j, b8(self.items[j]), t)
        return _mkbyte(t)

    def fold(self):
        if all(isinstance(x, int) for x in self.items):
            return Conc(bytes(self.items), self.is_text)
        return self

    def _cslice(self, lo, hi):
        return Vec(self.items[lo:hi]).fold()


class Arr(SymBytesBase):
    """A z3 array (BV32 -> BV8) of given length."""

    def __init__(self, arr, length):
        self.arr = arr
        self._length = length

    @property
    def length(self):
        return self._length

    @_memo_at
    def _at(self, i):
        return _mkbyte(z3.Select(self.arr, bv(i)))

    def _cslice(self, lo, hi):
        if hi - lo <= 64:
            return Vec([self._at(i) for i in range(lo, hi)])
        return View(self, lo, hi - lo)

    def fold(self):
        return self


class View(SymBytesBase):
    def __init__(self, parent, lo, length):
        # collapse views of views
        if isinstance(parent, View):
            lo = parent.lo + lo
            parent = parent.parent
        self.parent = parent
        self.lo = lo
        self._length = length

    @property
    def length(self):
        return self._length

    @_memo_at
    def _at(self, i):
        return self.parent._at(self.lo + i)

    def _cslice(self, lo, hi):
        if isinstance(self.lo, int) and isinstance(self.parent.length, int):
            return self.parent._cslice(self.lo + lo, self.lo + hi)
        if hi - lo <= 64:
            return Vec([self._at(i) for i in range(lo, hi)])
        return View(self.parent, self.lo + lo, hi - lo)

    def fold(self):
        return self


class Cat(SymBytesBase):
    def __init__(self, parts):
        flat = []
        for p in parts:
            if isinstance(p, Cat):
                flat.extend(p.parts)
            elif isinstance(p.length, int) and p.length == 0:
                continue
            else:
                flat.append(p)
        # merge adjacent concrete-length vectors
        merged = []
        for p in flat:
            if merged and isinstance(p, (Conc, Vec)) and isinstance(merged[-1], (Conc, Vec)):
                a = merged.pop()
                merged.append(Vec(a._items() + p._items()).fold())
            else:
                merged.append(p)
        self.parts = merged
        tot = 0
        self.offs = []
        for p in merged:
            self.offs.append(tot)
            tot = tot + p.length
        if isinstance(tot, SymInt):
            tot = mkint(tot.t, tot.lo, tot.hi)
        self._length = tot

    @property
    def length(self):
        return self._length

    def fold(self):
        if not self.parts:
            return Conc(b"")
        if len(self.parts) == 1:
            return self.parts[0]
        return self

    @_memo_at
    def _at(self, i):
        if isinstance(i, int):
            # resolve structurally while offsets are concrete
            for k, p in enumerate(self.parts):
                off = self.offs[k]
                n = p.length
                if isinstance(off, int) and isinstance(n, int):
                    if off <= i < off + n:
                        return p._at(i - off)
                else:
                    break
            else:
                raise IndexError(i)
        # general: ite chain over part boundaries, last part is the default
        k = len(self.parts) - 1
        r = self.parts[k]._at(i - self.offs[k])
        t = b8(r)
        for k in range(len(self.parts) - 2, -1, -1):
            end = self.offs[k] + self.parts[k].length
            inside = i < end
            if inside is True:
                t = b8(self.parts[k]._at(i - self.offs[k]))
            elif inside is False:
                continue
            else:
                t = z3.If(bterm(inside), b8(self.parts[k]._at(i - self.offs[k])), t)
        return _mkbyte(t)

    def _cslice(self, lo, hi):
        # structural when the cut points fall inside concrete-offset parts
        out = []
        for k, p in enumerate(self.parts):
            off, n = self.offs[k], p.length
            if not (isinstance(off, int) and isinstance(n, int)):
                # cannot resolve further structurally
                if isinstance(off, int) and hi <= off:
                    break
                return View(self, lo, hi - lo) if hi - lo > 64 else Vec([self._at(i) for i in range(lo, hi)])
            a, b = max(lo, off), min(hi, off + n)
            if a < b:
                out.append(p._cslice(a - off, b - off))
            if off + n >= hi:
                break
        return Cat(out).fold()

    def _slice(self, lo, hi):
        # x[k:] / x[k:-m] with concrete k, m on a Cat whose head / tail parts are concrete-length
        n = self.length
        if not isinstance(n, int) and (lo is None or isinstance(lo, int)) and (hi is None or isinstance(hi, int)):
            lo_ = lo or 0
            if lo_ >= 0 and (hi is None or hi < 0):
                parts = list(self.parts)
                ok = True
                # cut head
                rem = lo_
                while rem > 0 and parts:
                    pn = parts[0].length
                    if not isinstance(pn, int):
                        ok = False
                        break
                    if pn <= rem:
                        rem -= pn
                        parts.pop(0)
                    else:
                        parts[0] = parts[0]._cslice(rem, pn)
                        rem = 0
                rem = -(hi or 0)
                while ok and rem > 0 and parts:
                    pn = parts[-1].length
                    if not isinstance(pn, int):
                        ok = False
                        break
                    if pn <= rem:
                        rem -= pn
                        parts.pop()
                    else:
                        parts[-1] = parts[-1]._cslice(0, pn - rem)
                        rem = 0
                if ok and rem == 0:
                    return Cat(parts).fold()
        return super()._slice(lo, hi)


def join(sep, seq):
    """bytes.join / str.join over a sequence that may contain symbolic strings."""
    seq = list(seq)
    is_text = isinstance(sep, str)
    if not any(isinstance(x, SymBytesBase) for x in seq):
        return sep.join(seq)
    sepc = Conc(sep.encode("latin1") if is_text else bytes(sep), is_text)
    parts = []
    for k, x in enumerate(seq):
        if k and sepc.length:
            parts.append(sepc)
        if isinstance(x, SymBytesBase):
            parts.append(x)
        else:
            parts.append(Conc(x.encode("latin1") if isinstance(x, str) else bytes(x), is_text))
    r = Cat(parts).fold()
    if r.is_text != is_text:
        r = View(r, 0, r.length) if not isinstance(r, (Vec, Conc)) else Vec(r._items())
        r.is_text = is_text
    return r


# ----------------------------------------------------------------------------
# SymFmt: a str made of literal pieces and formatted symbolic ints


class SymFmt:
    """parts: list of str | (SymInt|int, spec).  Only int renderings whose
    characters are digits / '-' are allowed in symbolic parts."""

    def __init__(self, parts):
        out = []
        for p in parts:
            if isinstance(p, tuple) and isinstance(p[0], int) and not isinstance(p[0], bool):
                p = format(p[0], p[1])
            if isinstance(p, str):
                if not p:
                    continue
                if out and isinstance(out[-1], str):
                    out[-1] += p
                else:
                    out.append(p)
            else:
                out.append(p)
        self.parts = out

    def _lit(self):
        if all(isinstance(p, str) for p in self.parts):
            return "".join(self.parts)
        return None

    def split(self, sep=None, maxsplit=-1):
        if sep is None or any(ch.isdigit() or ch == "-" for ch in sep):
            raise Inconclusive("SymFmt.split with digit/minus separator")
        res, cur = [], []
        for p in self.parts:
            if isinstance(p, str):
                bits = p.split(sep)
                cur.append(bits[0])
                for b in bits[1:]:
                    res.append(SymFmt(cur).norm())
                    cur = [b]
            else:
                cur.append(p)
        res.append(SymFmt(cur).norm())
        if maxsplit >= 0 and len(res) > maxsplit + 1:
            raise Inconclusive("SymFmt.split maxsplit")
        return res

    def norm(self):
        s = self._lit()
        return s if s is not None else self

    def to_int(self):
        if len(self.parts) == 1 and isinstance(self.parts[0], tuple):
            v, spec = self.parts[0]
            if spec in ("", "d") or (spec.isdigit()):
                return v
        raise Inconclusive(f"int() of {self!r}")

    def lower(self):
        return SymFmt([p.lower() if isinstance(p, str) else p for p in self.parts])

    def __eq__(self, o):
        if isinstance(o, str):
            o = SymFmt([o])
        if not isinstance(o, SymFmt):
            return False
        a, b = self.parts, o.parts
        if len(a) == len(b) and all(
            (isinstance(x, str) and isinstance(y, str)) or
            (isinstance(x, tuple) and isinstance(y, tuple) and x[1] == y[1]) for x, y in zip(a, b)):
            conds = []
            for x, y in zip(a, b):
                if isinstance(x, str):
                    if x != y:
                        return False
                else:
                    conds.append(x[0] == y[0])
            return And(*conds) if conds else True
        raise Inconclusive(f"comparison of differently shaped formatted strings {self!r} / {o!r}")

    def __ne__(self, o):
        return Not(self.__eq__(o))

    def __hash__(self):
        return hash(str(self))

    def __str__(self):
        return "".join(p if isinstance(p, str) else format(int(p[0]), p[1]) for p in self.parts)

    def __repr__(self):
        return "SymFmt(" + "".join(p if isinstance(p, str) else "{%s:%s}" % (p[0], p[1]) for p in self.parts) + ")"

    def __format__(self, spec):
        if spec:
            raise Inconclusive("format spec on SymFmt")
        return self

    def __add__(self, o):
        if isinstance(o, str):
            return SymFmt(self.parts + [o])
        if isinstance(o, SymFmt):
            return SymFmt(self.parts + o.parts)
        return NotImplemented

    def __radd__(self, o):
        if isinstance(o, str):
            return SymFmt([o] + self.parts)
        return NotImplemented


def fstr(parts):
    """f-string / str.format replacement.  parts: str | (value, conv, spec)."""
    if not any(isinstance(p, tuple) and (is_sym(p[0]) or is_sym(p[2])) for p in parts):
        if active():
            # an object whose __str__/__repr__ itself yields a formatted symbolic string
            res = []
            for p in parts:
                if isinstance(p, str):
                    res.append(p)
                    continue
                v, conv, spec = p
                if spec == "" and not isinstance(v, (str, bytes, int, float, bool, type(None), list, tuple, dict)):
                    try:
                        r = v.__repr__() if conv == "r" else (v.__str__() if conv in (None, "s") else None)
                    except TypeError:
                        r = None
                    if isinstance(r, SymFmt):
                        res.extend(r.parts)
                        continue
                    if isinstance(r, str):
                        res.append(r)
                        continue
                res.append(_fmt1(v, conv, spec))
            return SymFmt(res).norm()
        return "".join(p if isinstance(p, str) else _fmt1(*p) for p in parts)
    if all(isinstance(p, str) or (isinstance(p[0], (str, SymBytesBase)) and p[1] in (None, "s") and p[2] == "")
           for p in parts) and all(not isinstance(p, tuple) or not isinstance(p[0], SymBytesBase) or p[0].is_text for p in parts):
        # plain interpolation of symbolic text: the result is symbolic text
        pieces = []
        for p in parts:
            v = p if isinstance(p, str) else p[0]
            pieces.append(Conc(v.encode("latin1"), True) if isinstance(v, str) else v)
        r = Cat(pieces).fold()
        if r.is_text is not True:
            r = View(r, 0, r.length) if not isinstance(r, (Vec, Conc)) else Vec(r._items())
            r.is_text = True
        return r
    out = []
    for p in parts:
        if isinstance(p, str):
            out.append(p)
            continue
        v, conv, spec = p
        if isinstance(spec, SymFmt):
            spec = str(spec)
        if isinstance(v, SymInt) and conv is None and (spec == "" or spec == "d" or spec.isdigit()):
            out.append((v, spec))
        elif isinstance(v, SymFmt) and conv is None and spec == "":
            out.extend(v.parts)
        elif isinstance(v, SymBytesBase) and v.is_text and conv is None and spec == "":
            out.append(v.concrete())
        elif is_sym(v):
            # anything else is rendered after forking to a concrete value
            out.append(_fmt1(_concrete_value(v), conv, spec))
        else:
            out.append(_fmt1(v, conv, spec))
    return SymFmt(out).norm()


def _concrete_value(v):
    if isinstance(v, SymInt):
        return ctx().concretize(v)
    if isinstance(v, SymBool):
        return bool(v)
    if isinstance(v, SymBytesBase):
        return v.concrete()
    if isinstance(v, SymFmt):
        return str(v)
    if isinstance(v, (SymFloat, SymRatio)):
        return v          # rendered as an opaque placeholder by __format__
    return v


def _fmt1(v, conv, spec):
    if conv == "r":
        v = repr(v)
    elif conv == "s":
        v = str(v)
    elif conv == "a":
        v = ascii(v)
    return format(v, spec)


# ----------------------------------------------------------------------------
# model access


def eval_int(m, x):
    if isinstance(x, bool):
        return int(x)
    if isinstance(x, int):
        return x
    if isinstance(x, SymBool):
        return 1 if z3.is_true(m.eval(x.t, model_completion=True)) else 0
    return m.eval(x.t, model_completion=True).as_signed_long()


def eval_bool(m, x):
    if isinstance(x, bool):
        return x
    return z3.is_true(m.eval(bterm(x), model_completion=True))


def eval_float(m, x):
    if isinstance(x, (int, float)):
        return float(x)
    v = m.eval(x.t, model_completion=True)
    return fp_to_py(v)


def fp_to_py(v):
    import struct as _s
    if z3.is_fprm_value(v):
        raise ValueError
    bvv = z3.simplify(z3.fpToIEEEBV(v))
    return _s.unpack(">d", bvv.as_long().to_bytes(8, "big"))[0]


def eval_array(m, arr, n):
    """Model value of array term `arr` on indices 0..n-1 as bytes."""
    e = m.eval(arr, model_completion=True)
    vals = {}
    default = None
    cur = e
    for _ in range(100000):
        if z3.is_store(cur):
            idx, val = cur.arg(1), cur.arg(2)
            if z3.is_bv_value(idx) and z3.is_bv_value(val):
                vals.setdefault(idx.as_long(), val.as_long())
                cur = cur.arg(0)
                continue
            break
        if z3.is_const_array(cur):
            d = cur.arg(0)
            if z3.is_bv_value(d):
                default = d.as_long()
            break
        break
    if default is not None:
        return bytes(vals.get(i, default) for i in range(n))
    # fallback: evaluate select per index
    out = bytearray(n)
    for i in range(n):
        out[i] = m.eval(z3.Select(arr, z3.BitVecVal(i, W)), model_completion=True).as_long()
    return bytes(out)


def eval_bytes(m, x):
    if isinstance(x, (bytes, bytearray)):
        return bytes(x)
    if isinstance(x, str):
        return x
    n = eval_int(m, x.length)
    out = bytearray(n)
    for i in range(n):
        v = x._at(i)
        out[i] = v if isinstance(v, int) else (eval_int(m, v) & 255)
    b = bytes(out)
    return b.decode("latin1") if x.is_text else b


def eval_any(m, x):
    """Evaluate a (possibly nested) value under model m into plain Python."""
    if isinstance(x, SymInt):
        return eval_int(m, x)
    if isinstance(x, SymBool):
        return eval_bool(m, x)
    if isinstance(x, SymFloat):
        return eval_float(m, x)
    if isinstance(x, SymRatio):
        return eval_int(m, x.n) / x.c
    if type(x).__name__ == "SymReal":
        v = m.eval(x.t, model_completion=True)
        f = v.as_fraction()
        return float(f)
    if isinstance(x, SymBytesBase):
        return eval_bytes(m, x)
    if isinstance(x, SymFmt):
        return "".join(p if isinstance(p, str) else format(eval_int(m, p[0]), p[1]) for p in x.parts)
    if isinstance(x, (list, tuple)):
        return type(x)(eval_any(m, y) for y in x)
    if isinstance(x, dict):
        return {k: eval_any(m, v) for k, v in x.items()}
    return x
