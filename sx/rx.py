"""Symbolic re.search for the pattern class  LIT (.*|.*?) LIT (.*|.*?) ... LIT.

The pattern text and flags are whatever the real code passes to re.search at run
time; they are parsed with CPython's own re._parser.  For a subject of concrete
length with symbolic bytes the result of the backtracking matcher (leftmost
start, then per group in order the longest / shortest extension for which the
rest still matches) is computed as a *term*: every literal occurrence test is a
conjunction of byte equalities at concrete positions, the chosen positions are
if-then-else chains.  No forks except "is there a match at all".

A pattern outside the class raises Inconclusive (never a silent pass).
"""
from __future__ import annotations

import re as _re
import re._parser as _parser
import re._constants as _c

import z3

from . import core
from .core import Inconclusive, SymBytesBase, Conc, View, mkint, mkbool, W


def parse(pattern, flags):
    """-> list of segments: ('lit', bytes) | ('grp', greedy: bool)."""
    if isinstance(pattern, SymBytesBase):
        pattern = pattern.concrete()
    is_bytes = isinstance(pattern, bytes)
    tree = _parser.parse(pattern, flags)
    segs = []
    lit = bytearray()

    def flush():
        if lit:
            segs.append(("lit", bytes(lit)))
            lit.clear()

    for op, av in tree:
        if op is _c.LITERAL:
            if av > 255:
                raise Inconclusive("non-latin1 literal in pattern")
            lit.append(av)
        elif op is _c.SUBPATTERN:
            group, add_flags, del_flags, sub = av
            if add_flags or del_flags or len(sub) != 1:
                raise Inconclusive(f"regex group outside the modelled class: {pattern!r}")
            rop, rav = sub[0]
            if rop not in (_c.MAX_REPEAT, _c.MIN_REPEAT):
                raise Inconclusive(f"regex group outside the modelled class: {pattern!r}")
            lo, hi, body = rav
            if lo != 0 or hi != _c.MAXREPEAT or len(body) != 1 or body[0][0] is not _c.ANY:
                raise Inconclusive(f"regex repeat outside the modelled class: {pattern!r}")
            flush()
            segs.append(("grp", rop is _c.MAX_REPEAT))
        else:
            raise Inconclusive(f"regex element {op} outside the modelled class: {pattern!r}")
    flush()
    if not segs or segs[0][0] != "lit" or segs[-1][0] != "lit":
        raise Inconclusive(f"regex must start and end with a literal: {pattern!r}")
    for a, b in zip(segs, segs[1:]):
        if a[0] == b[0]:
            raise Inconclusive(f"adjacent groups in regex: {pattern!r}")
    dotall = bool(flags & _re.DOTALL)
    return segs, dotall, is_bytes


class Match:
    def __init__(self, groups):
        self._groups = groups

    def groups(self):
        return tuple(self._groups)

    def group(self, i=0):
        if i == 0:
            raise Inconclusive("group(0) not modelled")
        return self._groups[i - 1]


def _bt(x):
    return z3.BoolVal(x) if isinstance(x, bool) else x


def search(pattern, subject, flags=0):
    if not isinstance(subject, SymBytesBase):
        return _re.search(pattern.concrete() if isinstance(pattern, SymBytesBase) else pattern, subject, flags)
    segs, dotall, is_bytes = parse(pattern, flags)
    n = subject.clen()
    if n is None:
        raise Inconclusive("re.search on a subject of symbolic length")
    byte = [subject._at(i) for i in range(n)]

    def lit_at(lit, p):
        """Bool term / bool: literal occurs at position p."""
        if p < 0 or p + len(lit) > n:
            return False
        conj = []
        for k, ch in enumerate(lit):
            b = byte[p + k]
            if isinstance(b, int):
                if b != ch:
                    return False
            else:
                conj.append(core.b8(b) == ch)
        if not conj:
            return True
        return z3.And(*conj) if len(conj) > 1 else conj[0]

    def simp(t):
        if isinstance(t, bool):
            return t
        t = z3.simplify(t)
        if z3.is_true(t):
            return True
        if z3.is_false(t):
            return False
        return t

    def AND(*xs):
        if any(x is False for x in xs):
            return False
        xs = [x for x in xs if x is not True]
        if not xs:
            return True
        return z3.And(*xs) if len(xs) > 1 else xs[0]

    def OR(*xs):
        if any(x is True for x in xs):
            return True
        xs = [x for x in xs if x is not False]
        if not xs:
            return False
        return z3.Or(*xs) if len(xs) > 1 else xs[0]

    lits = [s[1] for s in segs if s[0] == "lit"]
    grps = [s[1] for s in segs if s[0] == "grp"]
    k = len(lits)
    # nl[p]: byte p is a newline (only needed without DOTALL)
    if not dotall:
        nl = [(b == 10) if isinstance(b, int) else (core.b8(b) == 10) for b in byte]

    def span_ok(q, r):
        """group may cover [q, r)"""
        if dotall:
            return True
        return AND(*[simp(z3.Not(_bt(nl[i]))) if not isinstance(nl[i], bool) else (not nl[i]) for i in range(q, r)])

    # F[j][p]: pattern suffix starting with literal j matches at p
    F = [None] * k
    F[k - 1] = [lit_at(lits[k - 1], p) for p in range(n + 1)]
    for j in range(k - 2, -1, -1):
        nxt = F[j + 1]
        row = []
        if dotall:
            # suffix OR of nxt
            suf = [False] * (n + 2)
            for p in range(n, -1, -1):
                suf[p] = OR(nxt[p], suf[p + 1])
                if not isinstance(suf[p], bool):
                    suf[p] = simp(suf[p])
        for p in range(n + 1):
            m = lit_at(lits[j], p)
            if m is False:
                row.append(False)
                continue
            q = p + len(lits[j])
            if dotall:
                cont = suf[q] if q <= n else False
            else:
                cont = OR(*[AND(span_ok(q, r), nxt[r]) for r in range(q, n + 1)])
            row.append(AND(m, cont))
        F[j] = row
    any_match = OR(*F[0])
    if any_match is False:
        return None
    if any_match is not True:
        if not core.ctx().decide(any_match):
            return None

    def pick(conds, first):
        """position term: first / last index p with conds[p] (a (p, cond) list)."""
        order = conds if first else list(reversed(conds))
        # default: the last candidate in scan order (some candidate holds on this path)
        t = None
        for p, c in reversed(order):
            if c is False:
                continue
            if t is None or c is True:
                t = z3.BitVecVal(p, W)
            else:
                t = z3.If(c, z3.BitVecVal(p, W), t)
        if t is None:
            raise Inconclusive("regex model: no candidate position")
        return mkint(t, 0, n)

    start = pick([(p, F[0][p]) for p in range(n + 1)], True)
    groups = []
    pos = start
    for j in range(k - 1):
        q = pos + len(lits[j])          # group j starts here (int or SymInt)
        cands = []
        for r in range(n + 1):
            f = F[j + 1][r]
            if f is False:
                continue
            ge = (r >= q)
            if ge is False:
                continue
            cond = AND(_bt(core.bterm(ge)) if not isinstance(ge, bool) else ge, f)
            if not dotall:
                if isinstance(q, int):
                    cond = AND(cond, span_ok(q, r))
                else:
                    # q symbolic: newline-freeness of [q, r) = no i in range with q <= i < r and nl[i]
                    cond = AND(cond, *[simp(z3.Not(z3.And(core.bterm(i >= q), _bt(nl[i])))) for i in range(r)
                                       if nl[i] is not False])
            cands.append((r, cond))
        r_term = pick(cands, not grps[j])    # greedy: last; lazy: first
        ln = r_term - q
        if isinstance(q, int) and isinstance(ln, int):
            g = subject._cslice(q, q + ln) if ln > 0 else Conc(b"")
        else:
            g = View(subject, q, ln)
        g.is_text = subject.is_text
        groups.append(g)
        pos = r_term
    return Match(groups)


class PatShim:
    """Stands in for a compiled pattern (re.compile(...)): search on symbolic text goes through the same models as
    re.search; everything else is the real compiled pattern."""

    def __init__(self, shim, pattern, flags):
        self._shim = shim
        self._pattern = pattern
        self._flags = flags
        self._real = _re.compile(pattern, flags)

    def __getattr__(self, name):
        return getattr(self._real, name)

    def search(self, string, *a):
        if a and isinstance(string, SymBytesBase):
            raise Inconclusive("compiled pattern search with pos/endpos on symbolic text")
        if not isinstance(string, SymBytesBase):
            return self._real.search(string, *a)
        return self._shim.search(self._pattern, string, self._flags)

    def _unsupported(self, name):
        def f(string, *a, **k):
            subj = a[0] if name in ("sub", "subn") and a else string
            if isinstance(subj, SymBytesBase) or isinstance(string, SymBytesBase):
                raise Inconclusive(f"compiled pattern .{name} on symbolic text is not modelled")
            return getattr(self._real, name)(string, *a, **k)
        return f

    def match(self, string, *a):
        return self._unsupported("match")(string, *a)

    def fullmatch(self, string, *a):
        return self._unsupported("fullmatch")(string, *a)

    def sub(self, repl, string, *a, **k):
        return self._unsupported("sub")(repl, string, *a, **k)

    def split(self, string, *a, **k):
        return self._unsupported("split")(string, *a, **k)

    def findall(self, string, *a):
        return self._unsupported("findall")(string, *a)


class ReShim:
    """Stands in for the module `re` inside a geckolib module."""

    def compile(self, pattern, flags=0):
        if isinstance(pattern, SymBytesBase):
            pattern = pattern.concrete()
        return PatShim(self, pattern, flags)

    def __init__(self):
        self.calls = []

    def __getattr__(self, name):
        return getattr(_re, name)

    def _guard(name):
        def f(self, pattern, *a, **k):
            if any(isinstance(x, SymBytesBase) for x in a) or any(isinstance(x, SymBytesBase) for x in k.values()):
                raise Inconclusive(f"re.{name} on symbolic text is not modelled")
            return getattr(_re, name)(pattern, *a, **k)
        return f

    match = _guard("match")
    fullmatch = _guard("fullmatch")
    sub = _guard("sub")
    subn = _guard("subn")
    split = _guard("split")
    findall = _guard("findall")
    finditer = _guard("finditer")
    del _guard

    def search(self, pattern, string, flags=0):
        self.calls.append((pattern.concrete() if isinstance(pattern, SymBytesBase) else pattern, flags))
        if not isinstance(string, SymBytesBase):
            return _re.search(pattern, string, flags)
        try:
            parse(pattern, flags)
        except Inconclusive:
            # outside the LIT(.*)LIT class: general backtracking matcher executed on the symbolic text
            from . import rematch
            return rematch.search(pattern, string, flags)
        return search(pattern, string, flags)
