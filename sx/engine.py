"""sx engine: symbolic context (Sym), concrete context (Concrete), DFS explorer."""
from __future__ import annotations

import asyncio
import time
import traceback
import z3

from . import core
from .core import (PathAbort, Inconclusive, CheckFailed, SymInt, SymBool, SymFloat, SymBytesBase,
                   Vec, Arr, Conc, bterm, bv, mkint, mkbool, W)


import os as _os
_DEBUG = _os.environ.get('VERIF_DEBUG') == '1'


INCREMENTAL_TIMEOUT_MS = 1500


class HarnessError(Exception):
    """The machinery itself is wrong (non-reproducing counterexample, shim mismatch)."""


class Stats:
    def __init__(self):
        self.paths = 0
        self.aborted = 0
        self.decisions = 0
        self.queries = 0
        self.solver_s = 0.0
        self.checks = 0
        self.checks_trivial = 0
        self.validated = 0
        self.obligations = 0
        self.probes = 0
        self.reach = {}
        self.inconclusive = []
        self.max_depth = 0

    def merge(self, o):
        for k in ("paths", "aborted", "decisions", "queries", "solver_s", "checks", "checks_trivial",
                  "validated", "obligations", "probes"):
            setattr(self, k, getattr(self, k) + getattr(o, k))
        for k, v in o.reach.items():
            self.reach[k] = self.reach.get(k, 0) + v
        self.inconclusive.extend(o.inconclusive)
        self.max_depth = max(self.max_depth, o.max_depth)

    def as_dict(self):
        return dict(self.__dict__)

    @staticmethod
    def from_dict(d):
        s = Stats()
        s.__dict__.update(d)
        return s


# ----------------------------------------------------------------------------
# value <-> JSON for replay files


def to_json(v):
    if isinstance(v, bytes):
        return {"hex": v.hex()}
    if isinstance(v, float):
        return {"float": repr(v)}
    if isinstance(v, (list, tuple)):
        return [to_json(x) for x in v]
    if isinstance(v, dict):
        return {k: to_json(x) for k, x in v.items()}
    return v


def from_json(v):
    if isinstance(v, dict):
        if set(v) == {"hex"}:
            return bytes.fromhex(v["hex"])
        if set(v) == {"float"}:
            return float(v["float"])
        return {k: from_json(x) for k, x in v.items()}
    if isinstance(v, list):
        return [from_json(x) for x in v]
    return v


# ----------------------------------------------------------------------------


class _Base:
    """API shared by the symbolic and the concrete context."""

    symbolic = False

    def byte(self, name):
        return self.int_(name, 0, 255)

    def word(self, name):
        return self.int_(name, 0, 65535)


class Concrete(_Base):
    """Concrete mode: inputs come from a dict (a solver model or a replay file)."""

    def __init__(self, inputs, strict=True):
        self.inputs = inputs
        self.obs = []
        self.strict = strict
        self.failed = []
        self.reached = []
        self.presets = None

    def _get(self, name, default):
        if name in self.inputs:
            return self.inputs[name]
        return default

    def int_(self, name, lo, hi):
        return int(self._get(name, lo))

    def bool_(self, name):
        return bool(self._get(name, False))

    def bytes_(self, name, n):
        v = self._get(name, b"\x00" * n)
        assert len(v) == n, (name, len(v), n)
        return v

    def block(self, name, n):
        return self.bytes_(name, n)

    def decimal(self, name, klo, khi, denom):
        k = int(self._get(name, klo))
        return k / denom

    def real_(self, name, lo=None, hi=None):
        """exact rational in concrete mode (so that sums and comparisons of instants are exact)"""
        from fractions import Fraction
        v = self._get(name, lo if lo is not None else 0)
        return Fraction(v) if isinstance(v, str) else Fraction(v).limit_denominator(10**9)

    def choice(self, name, n):
        if self.presets and name in self.presets:
            return self.presets[name]
        return int(self._get(name, 0))

    def assume(self, cond):
        if not cond:
            raise PathAbort()

    def check(self, cond, site, detail=""):
        self.reached.append(site)
        if not cond:
            self.failed.append(site)
            if self.strict:
                raise CheckFailed(site, detail() if callable(detail) else detail)

    def check_bytes_equal(self, a, b, site, lo=0, hi=None, detail=""):
        hi = len(a) if hi is None else hi
        self.check(len(a) == len(b) and a[lo:hi] == b[lo:hi], site, detail)

    def check_same(self, a, b, site, detail=""):
        self.check(a == b, site, detail)

    def observe(self, name, value):
        self.obs.append((name, value))

    def known_inputs(self):
        return self.inputs

    def note(self, key, value):
        pass


class Probe(Concrete):
    """Concrete mode with inputs drawn at random inside their declared ranges (recorded, so the run can be replayed).
    Used only after a unit came back inconclusive: a counterexample found this way is reported like any other (it is
    replayed on the real code first); finding none proves nothing and the unit stays inconclusive."""

    def __init__(self, rng, presets):
        super().__init__({}, strict=False)
        self.rng = rng
        self.presets = presets

    def _draw(self, name, make):
        if name not in self.inputs:
            self.inputs[name] = make()
        return self.inputs[name]

    def int_(self, name, lo, hi):
        r = self.rng
        return int(self._draw(name, lambda: r.choice([lo, hi, r.randint(lo, hi), r.randint(lo, hi)])))

    def bool_(self, name):
        return bool(self._draw(name, lambda: self.rng.random() < 0.5))

    def bytes_(self, name, n):
        r = self.rng
        # small values are over-represented: enum indices, flags and counts live there
        return self._draw(name, lambda: bytes(r.choice((0, 1, 1, 2, 3, 4, 255)) if r.random() < 0.4 else r.randrange(256)
                                              for _ in range(n)))

    def decimal(self, name, klo, khi, denom):
        return int(self._draw(name, lambda: self.rng.randint(klo, khi))) / denom

    def real_(self, name, lo=None, hi=None):
        from fractions import Fraction
        a, b = (0 if lo is None else lo), (1000 if hi is None else hi)
        v = self._draw(name, lambda: str(Fraction(self.rng.randint(int(a * 64), int(b * 64)), 64)))
        return Fraction(v)

    def choice(self, name, n):
        if self.presets and name in self.presets:
            return self.presets[name]
        return int(self._draw(name, lambda: self.rng.randrange(n)))


class Sym(_Base):
    symbolic = True

    def __init__(self, explorer, prefix):
        self.ex = explorer
        self.solver = explorer.solver
        self.prefix = prefix
        self.trace = []
        self.model = None  # a model of the current path condition, or None
        self.inputs = {}   # name -> (kind, payload)
        self.obs = []
        self.obligs = []
        self.violated_sites = set()
        self.npc = 0
        self.qmodel = None
        self.intervals = {}

    # ---- solver plumbing
    def _query(self, *extra, fresh=False):
        """sat? of path condition + extra.  The incremental solver gets a short time
        limit; on `unknown` the same query is re-decided by a fresh (non-incremental)
        solver, which runs z3's full preprocessing, under the full limit."""
        st = self.ex.stats
        st.queries += 1
        t0 = time.perf_counter()
        if _DEBUG:
            s2 = z3.Solver()
            s2.add(self.solver.assertions())
            s2.add(*extra)
            with open("/tmp/sx_last_query.smt2", "w") as f:
                f.write(s2.to_smt2())
        if fresh and not self.ex.tactic:
            r = z3.unknown
        else:
            r = self.solver.check(*extra)
        how = "inc"
        if r == z3.sat:
            self.qmodel = self.solver.model()
        elif r == z3.unknown and not self.ex.tactic:
            how = "fresh"
            st.fresh_queries = getattr(st, "fresh_queries", 0) + 1
            s2 = z3.Solver()
            s2.set("timeout", self.ex.query_timeout_ms)
            s2.add(self.solver.assertions())
            s2.add(*extra)
            r = s2.check()
            if r == z3.sat:
                self.qmodel = s2.model()
            reason = s2.reason_unknown() if r == z3.unknown else ""
        else:
            reason = self.solver.reason_unknown() if r == z3.unknown else ""
        dt = time.perf_counter() - t0
        st.solver_s += dt
        if _DEBUG and dt > 0.5:
            print(f"[query {how} {dt:.1f}s -> {r}] assertions={len(self.solver.assertions())} extra={[str(e)[:200] for e in extra]}", flush=True)
        if r == z3.unknown:
            raise Inconclusive(f"solver answered unknown: {reason}")
        return r == z3.sat

    def _add(self, term):
        self.solver.add(term)
        self.npc += 1
        # invariant: self.model, when set, satisfies the whole path condition
        if self.model is not None and not z3.is_true(self.model.eval(term, model_completion=True)):
            self.model = None

    def _need_model(self):
        if self.model is None:
            if not self._query():
                raise PathAbort()
            self.model = self.qmodel
        return self.model

    # ---- decisions
    def decide(self, term):
        if isinstance(term, (SymBool, bool)):
            term = bterm(term)
        i = len(self.trace)
        if i < len(self.prefix):
            e = self.prefix[i]
            if e[0] != "b":
                raise Inconclusive("non-deterministic re-execution (decision kind)")
            self.trace.append(e)
            self._add(term if e[1] else z3.Not(term))
            return bool(e[1])
        self.ex.stats.decisions += 1
        if i >= self.ex.max_depth:
            raise Inconclusive(f"decision depth bound {self.ex.max_depth} exceeded")
        nterm = z3.Not(term)
        m = self.model
        if m is not None:
            side = z3.is_true(m.eval(term, model_completion=True))
        else:
            if self._query(term):
                side = True
                self.model = m = self.qmodel
            else:
                # pc is feasible by invariant, so the other side is
                self.trace.append(("b", 0))
                self._add(nterm)
                return False
        other = nterm if side else term
        if self._query(other):
            self.ex.push(self.trace + [("b", 0 if side else 1)])
        self.trace.append(("b", 1 if side else 0))
        self._add(term if side else nterm)
        return side

    def prove(self, cond):
        """Is cond implied by the path condition?  No fork, nothing added; the answer
        is recorded in the trace so re-executions do not ask again."""
        if cond is True or cond is False:
            return cond
        t = bterm(cond)
        i = len(self.trace)
        if i < len(self.prefix):
            e = self.prefix[i]
            if e[0] != "p":
                raise Inconclusive("non-deterministic re-execution (prove)")
            self.trace.append(e)
            return bool(e[1])
        if self.model is not None and not z3.is_true(self.model.eval(t, model_completion=True)):
            r = False
        else:
            r = not self._query(z3.Not(t))
        self.trace.append(("p", 1 if r else 0))
        return r

    def concretize(self, x):
        if isinstance(x, int):
            return x
        i = len(self.trace)
        excluded = ()
        if i < len(self.prefix):
            e = self.prefix[i]
            if e[0] == "v":
                self.trace.append(e)
                self._add(x.t == e[1])
                return e[1]
            if e[0] != "x":
                raise Inconclusive("non-deterministic re-execution (concretize)")
            excluded = e[1]
        self.ex.stats.decisions += 1
        if i >= self.ex.max_depth:
            raise Inconclusive(f"decision depth bound {self.ex.max_depth} exceeded")
        excl = [x.t != v for v in excluded]
        if excluded:
            self.model = None
            if not self._query(*excl):
                raise PathAbort()
            m = self.qmodel
        else:
            m = self._need_model()
        v = m.eval(x.t, model_completion=True).as_signed_long()
        if len(excluded) + 1 >= self.ex.max_fanout:
            raise Inconclusive(f"concretisation fan-out bound {self.ex.max_fanout} exceeded")
        if self._query(*(excl + [x.t != v])):
            self.ex.push(self.trace + [("x", excluded + (v,))])
        self.trace.append(("v", v))
        self._add(x.t == v)
        self.model = m
        return v

    def choice(self, name, n):
        pre = self.ex.presets
        if pre and name in pre:
            self.inputs[name] = ("choice", pre[name])
            return pre[name]
        i = len(self.trace)
        if i < len(self.prefix):
            e = self.prefix[i]
            if e[0] != "k":
                raise Inconclusive("non-deterministic re-execution (choice)")
            k = e[1]
        else:
            k = 0
            for j in range(n - 1, 0, -1):
                self.ex.push(self.trace + [("k", j)])
        self.trace.append(("k", k))
        self.inputs[name] = ("choice", k)
        return k

    # ---- inputs
    def _fresh(self, name, sort):
        if name in self.inputs:
            raise HarnessError(f"duplicate input name {name}")
        return z3.Const(name, sort)

    def int_(self, name, lo, hi):
        t = self._fresh(name, z3.BitVecSort(W))
        self._add(z3.And(t >= lo, t <= hi))
        self.model = None
        r = SymInt(t, lo, hi)
        self.inputs[name] = ("int", r)
        self.intervals[t.get_id()] = (lo, hi)
        return r

    def bool_(self, name):
        t = self._fresh(name, z3.BoolSort())
        r = SymBool(t)
        self.inputs[name] = ("bool", r)
        return r

    def bytes_(self, name, n):
        if name in self.inputs:
            raise HarnessError(f"duplicate input name {name}")
        items = [core._mkbyte(z3.BitVec(f"{name}[{i}]", 8)) for i in range(n)]
        r = Vec(items)
        self.inputs[name] = ("bytes", r)
        return r

    def block(self, name, n):
        a = self._fresh(name, z3.ArraySort(z3.BitVecSort(W), z3.BitVecSort(8)))
        r = Arr(a, n)
        self.inputs[name] = ("block", r)
        return r

    def decimal(self, name, klo, khi, denom):
        """IEEE double nearest to the decimal k/denom (k symbolic integer)."""
        t = self._fresh(name, z3.BitVecSort(W))
        self._add(z3.And(t >= klo, t <= khi))
        self.model = None
        k = SymInt(t, klo, khi)
        self.inputs[name] = ("int", k)
        return SymFloat.of(k) / float(denom)

    def real_(self, name, lo=None, hi=None):
        from .realtime import SymReal
        t = self._fresh(name, z3.RealSort())
        if lo is not None:
            self._add(t >= lo)
        if hi is not None:
            self._add(t <= hi)
        self.model = None
        r = SymReal(t)
        self.inputs[name] = ("real", r)
        return r

    # ---- assumptions, obligations, checks
    def assume(self, cond):
        if cond is True:
            return
        if cond is False:
            raise PathAbort()
        t = bterm(cond)
        self._add(t)
        if self.model is not None and not z3.is_true(self.model.eval(t, model_completion=True)):
            self.model = None
        if self.model is None:
            if not self._query():
                raise PathAbort()
            self.model = self.qmodel

    def oblige(self, term):
        self.obligs.append(term)

    def observe(self, name, value):
        self.obs.append((name, value))

    def note(self, key, value):
        self.ex.notes.setdefault(key, value)

    def model_inputs(self, m):
        out = {}
        for name, (kind, p) in self.inputs.items():
            if kind == "choice":
                out[name] = p
            elif kind == "int":
                out[name] = core.eval_int(m, p)
            elif kind == "bool":
                out[name] = core.eval_bool(m, p)
            elif kind == "bytes":
                out[name] = core.eval_bytes(m, p)
            elif kind == "block":
                out[name] = core.eval_array(m, p.arr, p.length)
            elif kind == "real":
                v = m.eval(p.t, model_completion=True)
                out[name] = str(v.as_fraction()) if z3.is_rational_value(v) else str(v)
        return out

    def check(self, cond, site, detail=""):
        st = self.ex.stats
        st.reach[site] = st.reach.get(site, 0) + 1
        st.checks += 1
        if cond is True:
            st.checks_trivial += 1
            return
        t = z3.BoolVal(False) if cond is False else bterm(cond)
        nt = z3.Not(t)
        extra = []
        for _ in range(self.ex.max_known_rounds):
            if not self._query(nt, *extra, fresh=self.ex.fresh_checks):
                break
            m = self.qmodel
            inputs = self.model_inputs(m)
            verdict, sym_pred = self.ex.on_counterexample(self, site, inputs, detail)
            if verdict == "known" and sym_pred is not None:
                extra.append(z3.Not(bterm(sym_pred)))
                continue
            break
        else:
            raise Inconclusive("too many known-finding rounds at one check")
        # continue the path under the assumption that the check holds
        self.assume(mkbool(t))

    def check_same(self, a, b, site, detail=""):
        """a == b, discharged without the solver when both are the *same term*
        (structural identity => equal values; used for float results whose formula
        is already proved elsewhere).  Falls back to a solver check otherwise."""
        ta, tb = getattr(a, "t", None), getattr(b, "t", None)
        if ta is not None and tb is not None and ta.eq(tb):
            st = self.ex.stats
            st.reach[site] = st.reach.get(site, 0) + 1
            st.checks += 1
            st.checks_trivial += 1
            return
        self.check(a == b, site, detail)

    def check_bytes_equal(self, a, b, site, lo=0, hi=None, detail=""):
        """a[i] == b[i] for all lo <= i < hi (skolem index), and equal lengths."""
        a = a if isinstance(a, SymBytesBase) else Conc(a)
        b = b if isinstance(b, SymBytesBase) else Conc(b)
        n = a.length
        hi = n if hi is None else hi
        self.ex.skolems += 1
        top = hi.hi if isinstance(hi, SymInt) else hi
        sk = z3.BitVec(f"_sk{self.ex.skolems}", W)
        self._add(z3.And(sk >= 0, sk <= top))      # fresh variable: restricts nothing else
        i = SymInt(sk, 0, top)
        rng = core.And(i >= lo, i < hi)
        cond = core.And(a.length == b.length, core.Implies(rng, a._at(i) == b._at(i)))
        self.check(cond, site, detail)

    def unexpected(self, exc, tb):
        """The scenario raised an exception the harness did not expect."""
        site = f"unexpected:{type(exc).__name__}"
        st = self.ex.stats
        st.reach[site] = st.reach.get(site, 0) + 1
        m = self._need_model()
        inputs = self.model_inputs(m)
        self.ex.on_counterexample(self, site, inputs, f"{exc!r}\n{tb}")

    def finish(self):
        """End of path: discharge obligations; return a model of the path."""
        if self.obligs:
            self.ex.stats.obligations += len(self.obligs)
            if self._query(z3.Not(z3.And(*self.obligs))):
                raise Inconclusive("a 32-bit no-overflow obligation could not be discharged: "
                                   f"{self.model_inputs(self.qmodel)}")
        return self._need_model()


class Explorer:
    """Depth-first exploration by re-execution."""

    def __init__(self, scenario, *, unit="", max_paths=20000, max_depth=400, max_fanout=300,
                 time_budget=None, query_timeout_ms=60000, on_counterexample=None, validate=True,
                 max_known_rounds=8, tactic=None, ratio_floats=False, fresh_checks=False, presets=None):
        self.scenario = scenario
        self.unit = unit
        self.max_paths = max_paths
        self.max_depth = max_depth
        self.max_fanout = max_fanout
        self.time_budget = time_budget
        self.validate = validate
        self.max_known_rounds = max_known_rounds
        self.solver = z3.Tactic(tactic).solver() if tactic else z3.Solver()
        self.tactic = tactic
        self.query_timeout_ms = query_timeout_ms
        self.ratio_floats = ratio_floats
        self.fresh_checks = fresh_checks
        self.presets = presets
        self.solver.set("timeout", query_timeout_ms if tactic else min(query_timeout_ms, INCREMENTAL_TIMEOUT_MS))
        self.frontier = [[]]
        self.stats = Stats()
        self.skolems = 0
        self.notes = {}
        self.samples = []
        self.findings = []   # (kind, site, inputs, detail)  kind in known/violation/harness
        self.exhaustive = False
        self._cex = on_counterexample

    def push(self, prefix):
        self.frontier.append(prefix)

    def on_counterexample(self, sym, site, inputs, detail):
        if self._cex is None:
            self.findings.append(("violation", site, inputs, "" if callable(detail) else str(detail), None))
            return "violation", None
        return self._cex(self, sym, site, inputs, detail)

    def run(self):
        self._explore()
        st = self.stats
        if st.inconclusive and not any(f[0] == "violation" for f in self.findings):
            self._probe()
        return self

    def _explore(self):
        t0 = time.time()
        st = self.stats
        while self.frontier:
            if st.paths + st.aborted >= self.max_paths:
                st.inconclusive.append(f"{self.unit}: path budget {self.max_paths} exhausted")
                return self
            if self.time_budget and time.time() - t0 > self.time_budget:
                st.inconclusive.append(f"{self.unit}: time budget {self.time_budget}s exhausted")
                return self
            prefix = self.frontier.pop()
            self._one(prefix)
            if sum(1 for f in self.findings if f[0] == "violation") >= 3:
                # an unlisted, reproduced violation is already in hand: further paths of this unit add nothing
                # (and a change that leaks state between runs can make them arbitrarily slow)
                st.inconclusive_note = "stopped after 3 violations"
                return self
            if len(st.inconclusive) >= 20:
                st.inconclusive.append(f"{self.unit}: exploration stopped after 20 inconclusive paths")
                return self
        self.exhaustive = not st.inconclusive
        return self

    def _probe(self, runs=3000, seconds=20.0):
        """the solver could not decide this unit: look for a counterexample on random concrete inputs (sound when one
        is found - it goes through the same replay as any other; the unit stays inconclusive otherwise)"""
        import random
        rng = random.Random(20201208)
        t0 = time.time()
        st = self.stats
        for _ in range(runs):
            if time.time() - t0 > seconds:
                break
            cc = Probe(rng, self.presets)
            core.RATIO_MODE[0] = False
            st.probes += 1
            site = detail = None
            try:
                self.scenario(cc)
            except (PathAbort, Inconclusive):
                continue
            except CheckFailed:
                continue
            except HarnessError:
                raise
            except (Exception, asyncio.CancelledError) as e:  # noqa
                site, detail = f"unexpected:{type(e).__name__}", repr(e)
            if site is None and cc.failed:
                site, detail = cc.failed[0], "found by concrete probing after an inconclusive symbolic exploration"
            if site is not None:
                kind, _ = self.on_counterexample(None, site, dict(cc.inputs), detail)
                if kind == "violation":
                    return

    def _one(self, prefix):
        st = self.stats
        self.skolems = 0
        sym = Sym(self, prefix)
        self.solver.push()
        core._CTX = sym
        core.RATIO_MODE[0] = self.ratio_floats
        model = None
        try:
            try:
                self.scenario(sym)
            except (PathAbort, Inconclusive):
                raise
            except CheckFailed as e:
                raise HarnessError(f"CheckFailed in symbolic mode: {e}")
            except HarnessError:
                raise
            except (Exception, asyncio.CancelledError) as e:  # unexpected exception from the code under test (a cancellation
                # escaping a task the scenario awaits is one too)
                sym.unexpected(e, traceback.format_exc(limit=8))
                raise PathAbort()
            model = sym.finish()
            st.paths += 1
            st.max_depth = max(st.max_depth, len(sym.trace))
        except PathAbort:
            st.aborted += 1
        except Inconclusive as e:
            st.inconclusive.append(f"{self.unit}: {e} @trace-depth {len(sym.trace)}")
        finally:
            core._CTX = None
            core.RATIO_MODE[0] = False
        try:
            if model is not None:
                inputs = sym.model_inputs(model)
                if len(self.samples) < 3:
                    self.samples.append({"unit": self.unit, "inputs": to_json(inputs)})
                if self.validate:
                    self._cross_check(sym, model, inputs)
        finally:
            self.solver.pop()

    def _cross_check(self, sym, model, inputs):
        """Run the same scenario on the concrete model values (same instrumented
        modules; with concrete arguments every shim delegates to the real C code)
        and compare the observations."""
        cc = Concrete(inputs, strict=False)
        cc.presets = self.presets
        try:
            self.scenario(cc)
        except PathAbort:
            raise HarnessError(f"{self.unit}: concrete re-run aborted on a model of a completed path: {inputs}")
        except Exception as e:
            raise HarnessError(f"{self.unit}: concrete re-run raised {e!r} on a completed symbolic path: "
                               f"{inputs}\n{traceback.format_exc(limit=6)}")
        if cc.failed:
            raise HarnessError(f"{self.unit}: concrete re-run failed check(s) {cc.failed} that the solver "
                               f"proved on this path: {inputs}")
        sobs = [(n, core.eval_any(model, v)) for n, v in sym.obs]
        cobs = [(n, _plain(v)) for n, v in cc.obs]
        if sobs != cobs:
            diff = [(a, b) for a, b in zip(sobs, cobs) if a != b][:3]
            raise HarnessError(f"{self.unit}: symbolic/concrete observation mismatch {diff} "
                               f"(lens {len(sobs)}/{len(cobs)}) inputs={inputs}")
        self.stats.validated += 1


def _plain(v):
    if isinstance(v, tuple):
        return tuple(_plain(x) for x in v)
    if isinstance(v, list):
        return [_plain(x) for x in v]
    if isinstance(v, bytearray):
        return bytes(v)
    return v
