"""SymReal: clock readings as mathematical reals (only + - and comparisons are applied to time)."""
from __future__ import annotations

from fractions import Fraction

import z3

from . import core
from .core import mkbool


def _r(x):
    if isinstance(x, SymReal):
        return x.t
    if isinstance(x, bool):
        x = int(x)
    if isinstance(x, int):
        return z3.RealVal(x)
    if isinstance(x, float):
        return z3.RealVal(str(Fraction(x)))     # the exact value of the double (so concrete replays agree at boundaries)
    if isinstance(x, Fraction):
        return z3.RealVal(str(x))
    if isinstance(x, core.SymInt):
        return z3.ToReal(z3.BV2Int(x.t, True))
    raise TypeError(type(x))


class SymReal:
    __slots__ = ("t",)

    def __init__(self, t):
        self.t = t

    def __add__(self, o):
        return mkreal(self.t + _r(o))

    __radd__ = __add__

    def __sub__(self, o):
        return mkreal(self.t - _r(o))

    def __rsub__(self, o):
        return mkreal(_r(o) - self.t)

    def __mul__(self, o):
        if isinstance(o, SymReal):
            raise core.Inconclusive("product of two symbolic reals")
        return mkreal(self.t * _r(o))

    __rmul__ = __mul__

    def __neg__(self):
        return mkreal(-self.t)

    def __lt__(self, o):
        return mkbool(self.t < _r(o))

    def __le__(self, o):
        return mkbool(self.t <= _r(o))

    def __gt__(self, o):
        return mkbool(self.t > _r(o))

    def __ge__(self, o):
        return mkbool(self.t >= _r(o))

    def __eq__(self, o):
        if not isinstance(o, (int, float, SymReal, Fraction)):
            return False
        return mkbool(self.t == _r(o))

    def __ne__(self, o):
        return core.Not(self.__eq__(o))

    def __hash__(self):
        raise core.Inconclusive("hash of a symbolic real")

    def __repr__(self):
        return f"SymReal({self.t})"

    def __format__(self, spec):
        return "<time>"


def mkreal(t):
    t = z3.simplify(t)
    if z3.is_rational_value(t):
        f = t.as_fraction()
        return float(f) if f.denominator != 1 else int(f)
    return SymReal(t)
