"""Virtual event loop: drives the *real* asyncio Task / Future / Lock / Queue / wait /
sleep / gather and the real geckolib coroutines with a virtual clock.

Nondeterminism is explicit: the harness decides what the fake datagram endpoint
delivers and when; an optional `pick` hook chooses among timers due at the same
instant.  One Handle._run() is one atomic segment of a coroutine.
"""
from __future__ import annotations

import asyncio
import collections
import heapq
import sys
from asyncio import events


class FakeTime:
    """Stands in for the module `time` inside geckolib modules (clock boundary)."""

    def __init__(self, loop):
        self._loop = loop

    def monotonic(self):
        return self._loop.time()

    def time(self):
        return 1_600_000_000.0 + self._loop.time()

    def sleep(self, _d):
        raise RuntimeError("blocking sleep under the virtual loop")

    def __getattr__(self, name):
        import time as _t
        return getattr(_t, name)


class FakeDatagramTransport(asyncio.DatagramTransport):
    def __init__(self, loop, protocol, on_send=None):
        super().__init__()
        self.loop = loop
        self.protocol = protocol
        self.sent = []
        self.closed = 0
        self.on_send = on_send

    def sendto(self, data, addr=None):
        self.sent.append((data, addr, self.loop.time()))
        if self.on_send is not None:
            self.on_send(self, data, addr)

    def close(self):
        self.closed += 1
        if self.closed == 1:
            self.loop.call_soon(self.protocol.connection_lost, None)

    def is_closing(self):
        return self.closed > 0

    def abort(self):
        self.close()


class VLoop(asyncio.AbstractEventLoop):
    def __init__(self, start=0.0, pick=None, on_endpoint=None):
        self._time = start
        self._ready = collections.deque()
        self._timers = []
        self._seq = 0
        self._running = False
        self._closed = False
        self.exceptions = []
        self.pick = pick
        self.on_endpoint = on_endpoint
        self.endpoints = []
        self.steps = 0
        self.tasks = []
        self._seen_done = set()

    # ---- clock / flags
    def time(self):
        return self._time

    def get_debug(self):
        return False

    def is_running(self):
        return self._running

    def is_closed(self):
        return self._closed

    def close(self):
        self._closed = True

    # ---- scheduling
    def call_soon(self, callback, *args, context=None):
        h = events.Handle(callback, args, self, context)
        self._ready.append(h)
        return h

    call_soon_threadsafe = call_soon

    def call_later(self, delay, callback, *args, context=None):
        return self.call_at(self._time + delay, callback, *args, context=context)

    def call_at(self, when, callback, *args, context=None):
        h = events.TimerHandle(when, callback, args, self, context)
        self._seq += 1
        heapq.heappush(self._timers, (when, self._seq, h))
        h._scheduled = True
        return h

    def _timer_handle_cancelled(self, handle):
        pass

    def create_future(self):
        return asyncio.Future(loop=self)

    def create_task(self, coro, *, name=None, context=None):
        t = asyncio.Task(coro, loop=self, name=name, context=context)
        self.tasks.append(t)
        return t

    def call_exception_handler(self, context):
        self.exceptions.append(context)

    def default_exception_handler(self, context):
        self.exceptions.append(context)

    async def create_datagram_endpoint(self, protocol_factory, local_addr=None, remote_addr=None, **kw):
        protocol = protocol_factory()
        transport = FakeDatagramTransport(self, protocol)
        self.endpoints.append((transport, protocol, kw))
        protocol.connection_made(transport)
        if self.on_endpoint is not None:
            self.on_endpoint(transport, protocol, kw)
        return transport, protocol

    async def shutdown_asyncgens(self):
        pass

    # ---- running
    def _run_once(self):
        """Run every ready handle; if none, advance the clock to the next timer(s)."""
        if not self._ready:
            while self._timers and self._timers[0][2]._cancelled:
                heapq.heappop(self._timers)
            if not self._timers:
                return False
            when = self._timers[0][0]
            due = []
            while self._timers and self._timers[0][0] == when:
                _, _, h = heapq.heappop(self._timers)
                if not h._cancelled:
                    due.append(h)
            if self.pick is not None and len(due) > 1:
                due = self.pick(due)
            self._time = when
            self._ready.extend(due)
        n = len(self._ready)
        for _ in range(n):
            h = self._ready.popleft()
            if h._cancelled:
                continue
            self.steps += 1
            h._run()
            self._reraise_control()
        return True

    def _reraise_control(self):
        """asyncio stores any BaseException raised inside a task; the engine's control-flow
        exceptions (path abort / inconclusive) must reach the explorer instead."""
        from .core import PathAbort, Inconclusive
        for t in self.tasks:
            if t in self._seen_done or not t.done():
                continue
            self._seen_done.add(t)
            if t.cancelled():
                continue
            e = t._exception if hasattr(t, "_exception") else None
            if isinstance(e, (PathAbort, Inconclusive)):
                t.exception()
                raise e

    def step(self):
        """one scheduling round: every ready handle runs once (one atomic segment per task)"""
        old = events._get_running_loop()
        events._set_running_loop(self)
        self._running = True
        try:
            r = self._run_once()          # runs what is ready, or advances the clock to the next timer(s)
            while self._ready:            # ... and lets the tasks those timers woke run their segment
                self._run_once()
            return r
        finally:
            self._running = False
            events._set_running_loop(old)

    def run_until(self, done, max_time=None, max_steps=200000):
        """Run until done() is true, nothing is left to do, or virtual time passes max_time."""
        old = events._get_running_loop()
        events._set_running_loop(self)
        self._running = True
        try:
            while not done():
                if self.steps > max_steps:
                    raise RuntimeError("virtual loop step bound exceeded")
                if max_time is not None and not self._ready:
                    while self._timers and self._timers[0][2]._cancelled:
                        heapq.heappop(self._timers)
                    if self._timers and self._timers[0][0] > max_time:
                        self._time = max_time
                        return False
                if not self._run_once():
                    return done()
            return True
        finally:
            self._running = False
            events._set_running_loop(old)

    def run_until_complete(self, coro, max_time=None):
        t = self.create_task(coro) if asyncio.iscoroutine(coro) else coro
        self.run_until(t.done, max_time)
        if not t.done():
            raise TimeoutError("virtual deadline passed")
        return t.result()

    def cancel_all(self):
        """End of scenario: cancel what is left so no coroutine is garbage-collected while suspended."""
        old = events._get_running_loop()
        events._set_running_loop(self)
        try:
            for t in self.tasks:
                if not t.done():
                    t.cancel()
            for _ in range(1000):
                if not self._ready:
                    break
                self._run_once_ready()
            for t in self.tasks:
                if t.done() and not t.cancelled():
                    t.exception()   # mark retrieved
        finally:
            events._set_running_loop(old)

    def _run_once_ready(self):
        n = len(self._ready)
        for _ in range(n):
            h = self._ready.popleft()
            if not h._cancelled:
                h._run()


class patched_time:
    """Context manager: every loaded geckolib module that imported `time` sees the loop's clock."""

    def __init__(self, loop):
        self.loop = loop
        self.saved = []

    def __enter__(self):
        import time as _t
        ft = FakeTime(self.loop)
        for name, mod in list(sys.modules.items()):
            if (name == "geckolib" or name.startswith("geckolib.")) and mod is not None:
                cur = mod.__dict__.get("time")
                if cur is _t or isinstance(cur, FakeTime):
                    self.saved.append((mod, cur))
                    mod.__dict__["time"] = ft
        return ft

    def __exit__(self, *a):
        import time as _t
        for mod, cur in self.saved:
            mod.__dict__["time"] = _t
        return False
