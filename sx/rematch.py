"""A small backtracking regular-expression matcher with CPython's semantics (leftmost, greedy / lazy
quantifiers in order) for the subset the snapshot parser uses, written so that it can run on symbolic
text: every character test is a (possibly symbolic) boolean that the executor forks on.

Supported: literals, '.', classes [...] incl. ranges and negation, \\d \\s \\w, * + ? {m,n} greedy and
lazy, capturing groups, DOTALL.  Anything else raises Inconclusive.
The pattern is parsed by CPython's own re._parser.
"""
from __future__ import annotations

import re as _re
import re._parser as _parser
import re._constants as _c

from . import core
from .core import Inconclusive, SymBytesBase, Conc, Or, And, Not


def _cat(cat):
    if cat is _c.CATEGORY_DIGIT:
        return lambda ch: And(ch >= 48, ch <= 57)
    if cat is _c.CATEGORY_SPACE:
        return lambda ch: Or(ch == 32, And(ch >= 9, ch <= 13))
    if cat is _c.CATEGORY_WORD:
        return lambda ch: Or(And(ch >= 48, ch <= 57), And(ch >= 65, ch <= 90), And(ch >= 97, ch <= 122), ch == 95)
    if cat is _c.CATEGORY_NOT_DIGIT:
        return lambda ch: Not(And(ch >= 48, ch <= 57))
    raise Inconclusive(f"regex category {cat}")


def _test(op, av, dotall):
    """-> function(char value) -> bool / SymBool"""
    if op is _c.LITERAL:
        return lambda ch: ch == av
    if op is _c.NOT_LITERAL:
        return lambda ch: ch != av
    if op is _c.ANY:
        return (lambda ch: True) if dotall else (lambda ch: ch != 10)
    if op is _c.IN:
        neg = False
        tests = []
        for o, a in av:
            if o is _c.NEGATE:
                neg = True
            elif o is _c.LITERAL:
                tests.append(lambda ch, a=a: ch == a)
            elif o is _c.RANGE:
                tests.append(lambda ch, a=a: And(ch >= a[0], ch <= a[1]))
            elif o is _c.CATEGORY:
                tests.append(_cat(a))
            else:
                raise Inconclusive(f"regex class element {o}")

        def t(ch):
            r = Or(*[f(ch) for f in tests]) if tests else False
            return Not(r) if neg else r
        return t
    if op is _c.CATEGORY:
        return _cat(av)
    return None


def compile_(pattern, flags):
    tree = _parser.parse(pattern, flags)
    dotall = bool(flags & _re.DOTALL)
    ngroups = tree.state.groups - 1
    return list(tree), dotall, ngroups


def search(pattern, subject, flags=0):
    if isinstance(pattern, SymBytesBase):
        pattern = pattern.concrete()
    items, dotall, ngroups = compile_(pattern, flags)
    n = len(subject)
    chars = [subject._at(i) for i in range(n)]

    def truth(b):
        return b if isinstance(b, bool) else bool(b)

    def m(items, k, pos, groups, cont):
        """match items[k:] at pos; on success call cont(pos, groups) -> result or None (backtrack)"""
        if k == len(items):
            return cont(pos, groups)
        op, av = items[k]
        t = _test(op, av, dotall)
        if t is not None:
            if pos < n and truth(t(chars[pos])):
                return m(items, k + 1, pos + 1, groups, cont)
            return None
        if op is _c.SUBPATTERN:
            g, add, dele, sub = av
            if add or dele:
                raise Inconclusive("regex group flags")
            sub = list(sub)

            def after(p2, gr):
                if g is not None:
                    gr = dict(gr)
                    gr[g] = (pos, p2)
                return m(items, k + 1, p2, gr, cont)
            return m(sub, 0, pos, groups, after)
        if op in (_c.MAX_REPEAT, _c.MIN_REPEAT):
            lo, hi, body = av
            body = list(body)
            greedy = op is _c.MAX_REPEAT

            def rep(count, p, gr):
                def more():
                    if hi is not _c.MAXREPEAT and count >= hi:
                        return None

                    def again(p2, gr2):
                        if p2 == p:
                            return None          # empty iteration: stop
                        return rep(count + 1, p2, gr2)
                    return m(body, 0, p, gr, again)

                def done():
                    if count < lo:
                        return None
                    return m(items, k + 1, p, gr, cont)
                if greedy:
                    r = more()
                    return r if r is not None else done()
                r = done()
                return r if r is not None else more()
            return rep(0, pos, groups)
        if op is _c.BRANCH:
            for alt in av[1]:
                r = m(list(alt) + items[k + 1:], 0, pos, groups, cont)
                if r is not None:
                    return r
            return None
        raise Inconclusive(f"regex element {op} not modelled")

    for start in range(n + 1):
        r = m(items, 0, start, {}, lambda p, g: (p, g))
        if r is not None:
            end, gr = r
            out = []
            for g in range(1, ngroups + 1):
                if g in gr:
                    a, b = gr[g]
                    piece = subject._cslice(a, b) if b > a else Conc(b"")
                    piece.is_text = subject.is_text
                    out.append(piece)
                else:
                    out.append(None)
            from .rx import Match
            return Match(out)
    return None
