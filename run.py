"""Entry point of every check (see ./run)."""
import argparse
import os
import sys

ROOT = os.path.dirname(os.path.abspath(__file__))
sys.path.insert(0, ROOT)


def main():
    ap = argparse.ArgumentParser()
    ap.add_argument("check")
    ap.add_argument("--tier", default=os.environ.get("VERIF_TIER", "quick"), choices=["quick", "thorough"])
    ap.add_argument("--replay")
    ap.add_argument("--only")
    ap.add_argument("--jobs", type=int)
    a = ap.parse_args()
    if a.replay and "VERIF_PLAIN" not in os.environ:
        os.environ["VERIF_PLAIN"] = "1"
    from sx import loader
    loader.install()
    from sx import harness
    modname = "checks." + a.check.lower()
    if a.replay:
        sys.exit(harness.replay(modname, a.replay))
    sys.exit(harness.run_check(modname, a.tier, jobs=a.jobs, only=a.only))


if __name__ == "__main__":
    main()
