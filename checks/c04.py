"""C04 - wire format: every message round-trips and is claimed by exactly its verb.

(a) every constructor -> the peer class's can_handle/handle, symbolic fields;
(b) can_handle of every standard handler class on every built message;
(c) packet framing: the real send_bytes -> can_handle -> handle with a fully symbolic
    payload; the regular expression the code passes to re.search is decided by the
    symbolic matcher of sx/rx.py (exact leftmost/greedy semantics as a term).
"""
from __future__ import annotations

from .common import Unit, FakeTransport, frame, platforms, combos, SRC_ID, CLI_ID, DEST

PROPERTY = "C04"
FUNCTIONS = [
    "GeckoHelloProtocolHandler.broadcast/client/response/can_handle/handle",
    "GeckoPacketProtocolHandler.send_bytes/can_handle/handle/_extract_packet_parts",
    "GeckoPingProtocolHandler.*", "GeckoVersionProtocolHandler.*", "GeckoGetChannelProtocolHandler.*",
    "GeckoConfigFileProtocolHandler.*", "GeckoStatusBlockProtocolHandler.request/full_request/response/handle",
    "GeckoPartialStatusBlockProtocolHandler.report_changes/handle", "GeckoAsyncPartialStatusBlockProtocolHandler.async_handle",
    "GeckoPackCommandProtocolHandler.set_value/keypress/response/handle",
    "GeckoWatercareProtocolHandler.request/set/response/giveschedule/handle", "GeckoWatercareErrorHandler.can_handle",
    "GeckoRemindersProtocolHandler.request/response/handle", "GeckoUpdateFirmwareProtocolHandler.*",
    "GeckoRFErrProtocolHandler.*",
]


def bounds(tier):
    return {"fields": "sequence 0..255, positions/lengths 0..65535, versions, keycodes, modes: fully symbolic",
            "segment payload": "symbolic content; lengths " + ("{0,1,2,38,39,40,255}" if tier == "quick" else "0..255"),
            "reminders": "<= %d records, type 0..9 symbolic, days -32768..32767" % (2 if tier == "quick" else 3),
            "spa names": "<= 3 symbolic latin-1 bytes (may equal '|')",
            "FILES": "every shipped platform name x config x log version (finite configuration loop, concrete)",
            "framing": "identifiers 3 symbolic '<'-free bytes; payload lengths " +
                       ("{0,1,14,15,16,31,40}" if tier == "quick" else "0..48") + ", content fully symbolic"}


ASSUMPTIONS = [
    "identifiers contain no '<' (they are SPAxx:.. / IOS<uuid>); spa identifiers start with neither IOS nor AND and "
    "contain no '|'",
    "the sx/rx.py model of re.search is validated on every completed path by re-running the real re on a model",
    "SETWC and WCREQ are built by the library but claimed by no standard handler: listed known finding",
]
SITES = ["rt.*", "excl.*", "frm.*", "lay.*"]
SENDER = (DEST[0], DEST[1], SRC_ID, CLI_ID)
PARMS = (DEST[0], DEST[1], SRC_ID, CLI_ID)


class _Sock:
    """Minimal socket/protocol double for the partial-status handlers."""

    def __init__(self):
        self.sent = []
        self.n = 0

    def queue_send(self, h, dest=None):
        self.sent.append(h)

    def get_and_increment_sequence_counter(self, command):
        self.n += 1
        return self.n


def standard_handlers():
    import geckolib.driver.protocol as P
    mk = {
        "GeckoHelloProtocolHandler": lambda: P.GeckoHelloProtocolHandler(b""),
        "GeckoPartialStatusBlockProtocolHandler": lambda: P.GeckoPartialStatusBlockProtocolHandler(_Sock()),
        "GeckoAsyncPartialStatusBlockProtocolHandler": lambda: P.GeckoAsyncPartialStatusBlockProtocolHandler(_Sock()),
    }
    out = {}
    for name in P.__all__:
        cls = getattr(P, name)
        if not isinstance(cls, type) or not name.endswith("Handler") or name == "GeckoUnhandledProtocolHandler":
            continue
        out[name] = mk.get(name, cls)
    return out


ROLE = {"GeckoAsyncPartialStatusBlockProtocolHandler": "GeckoPartialStatusBlockProtocolHandler"}


def exclusive(sx, data, peer, tag):
    """exactly the intended peer class accepts `data`"""
    for name, make in standard_handlers().items():
        want = ROLE.get(name, name) == peer
        got = make().can_handle(data, SENDER)
        sx.check(got == want, f"excl.{tag}.{name[5:-15]}", lambda: f"{name}.can_handle -> {got}")


def deliver(sx, data, peer, tag):
    exclusive(sx, data, peer, tag)
    h = standard_handlers()[peer]()
    h.handle(data, SENDER)
    return h


def _len_choices(tier):
    return [0, 1, 2, 38, 39, 40, 255] if tier == "quick" else list(range(256))


# ---------------------------------------------------------------------------
# message scenarios: build with the real constructor, compare with an independent
# layout, deliver to the peer class, compare decoded attributes


def m_simple_requests(sx):
    import geckolib.driver.protocol as P
    from sx.loader import STRUCT_SHIM as S
    seq = sx.byte("seq")
    table = [
        ("version", P.GeckoVersionProtocolHandler, b"AVERS"),
        ("channel", P.GeckoGetChannelProtocolHandler, b"CURCH"),
        ("config", P.GeckoConfigFileProtocolHandler, b"SFILE"),
        ("watercare", P.GeckoWatercareProtocolHandler, b"GETWC"),
        ("reminders", P.GeckoRemindersProtocolHandler, b"REQRM"),
        ("firmware", P.GeckoUpdateFirmwareProtocolHandler, b"UPDTS"),
    ]
    name, cls, verb = table[sx.choice("which", len(table))]
    m = cls.request(seq, parms=PARMS)
    sx.check(m._content == verb + S.pack(">B", seq), f"lay.{name}.request")
    sx.check(m.send_bytes == frame(b"", CLI_ID, SRC_ID)[:-16] + verb + S.pack(">B", seq) + b"</DATAS></PACKT>",
             f"lay.{name}.request-framed")
    h = deliver(sx, m._content, cls.__name__, f"{name}-request")
    sx.observe("seq", h._sequence)
    sx.check(h._sequence == seq, f"rt.{name}.request.sequence")
    sx.check(not h.should_remove_handler, f"rt.{name}.request.stays")


def m_fixed(sx):
    import geckolib.driver.protocol as P
    table = [
        ("ping-request", lambda: P.GeckoPingProtocolHandler.request(parms=PARMS), b"APING", "GeckoPingProtocolHandler"),
        ("ping-response", lambda: P.GeckoPingProtocolHandler.response(parms=PARMS), b"APING\x00", "GeckoPingProtocolHandler"),
        ("packs", lambda: P.GeckoPackCommandProtocolHandler.response(parms=PARMS), b"PACKS", "GeckoPackCommandProtocolHandler"),
        ("supdt", lambda: P.GeckoUpdateFirmwareProtocolHandler.response(parms=PARMS), b"SUPDT\x00", "GeckoUpdateFirmwareProtocolHandler"),
        ("rferr", lambda: P.GeckoRFErrProtocolHandler.response(parms=PARMS), b"RFERR", "GeckoRFErrProtocolHandler"),
        ("wcreq", lambda: P.GeckoWatercareProtocolHandler.giveschedule(parms=PARMS), None, "GeckoWatercareProtocolHandler"),
        ("hello-broadcast", lambda: P.GeckoHelloProtocolHandler.broadcast(), b"<HELLO>1</HELLO>", "GeckoHelloProtocolHandler"),
    ]
    name, mk, layout, peer = table[sx.choice("which", len(table))]
    m = mk()
    data = m.send_bytes if name.startswith("hello") else m._content
    if layout is not None:
        sx.check(data == layout, f"lay.{name}")
    else:
        sx.check(data[:5] == b"WCREQ" and len(data) == 5 + 38, f"lay.{name}")
    h = deliver(sx, data, peer, name)
    if name == "hello-broadcast":
        sx.check(h.was_broadcast_discovery, "rt.hello-broadcast")
    if name == "ping-response":
        sx.check(h._sequence == 0, "rt.ping-response.sequence")
    if name in ("packs", "supdt"):
        sx.check(h.should_remove_handler, f"rt.{name}.completes")
    if name == "rferr":
        sx.check(h.total_error_count == 1 and h.last_error_at is not None, "rt.rferr.counted")


def m_version_response(sx):
    import geckolib.driver.protocol as P
    from sx.loader import STRUCT_SHIM as S
    en = (sx.word("en_build"), sx.byte("en_major"), sx.byte("en_minor"))
    co = (sx.word("co_build"), sx.byte("co_major"), sx.byte("co_minor"))
    m = P.GeckoVersionProtocolHandler.response(en, co, parms=PARMS)
    sx.check(m._content == b"SVERS" + S.pack(">H", en[0]) + S.pack(">BB", en[1], en[2]) + S.pack(">H", co[0])
             + S.pack(">BB", co[1], co[2]), "lay.version-response")
    h = deliver(sx, m._content, "GeckoVersionProtocolHandler", "version-response")
    got = (h.en_build, h.en_major, h.en_minor, h.co_build, h.co_major, h.co_minor)
    sx.observe("decoded", got)
    sx.check(all_eq(got, en + co), "rt.version-response.fields")
    sx.check(h.should_remove_handler, "rt.version-response.completes")


def all_eq(a, b):
    from sx.core import And
    if len(a) != len(b):
        return False
    return And(*[x == y for x, y in zip(a, b)]) if a else True


def m_channel_response(sx):
    import geckolib.driver.protocol as P
    from sx.loader import STRUCT_SHIM as S
    ch, sig = sx.byte("channel"), sx.byte("signal")
    m = P.GeckoGetChannelProtocolHandler.response(ch, sig, parms=PARMS)
    sx.check(m._content == b"CHCUR" + S.pack(">BB", ch, sig), "lay.channel-response")
    h = deliver(sx, m._content, "GeckoGetChannelProtocolHandler", "channel-response")
    sx.observe("decoded", (h.channel, h.signal_strength))
    sx.check(all_eq((h.channel, h.signal_strength), (ch, sig)), "rt.channel-response.fields")


def m_files(sx):
    """FILES: every shipped platform name x cfg x log (finite configuration loop, concrete values)."""
    import importlib
    import geckolib.driver.protocol as P
    n = 0
    names = {}
    for plat in platforms():
        names[plat] = importlib.import_module(f"geckolib.driver.packs.{plat}").GeckoPack(None).name
    for plat, c, l in combos():
        name = names[plat]
        wire = "MrSt" if name == "MrSteam" else name
        m = P.GeckoConfigFileProtocolHandler.response(wire, c, l, parms=PARMS)
        ref = f"FILES,{wire}_C{c:02d}.xml,{wire}_S{l:02d}.xml".encode("latin1")
        ok = m._content == ref
        h = P.GeckoConfigFileProtocolHandler()
        ok = ok and h.can_handle(m._content, SENDER)
        h.handle(m._content, SENDER)
        ok = ok and (h.plateform_key, h.config_version, h.log_version) == (name, c, l) and h.plateform_key.lower() == plat
        if not ok:
            sx.check(False, f"rt.files.{plat}-{c}-{l}")
        n += 1
    sx.observe("combos", n)
    sx.check(n >= 800, "rt.files.all-combos")
    m = P.GeckoConfigFileProtocolHandler.response("inYT", 9, 9, parms=PARMS)
    exclusive(sx, m._content, "GeckoConfigFileProtocolHandler", "files")
    h = P.GeckoConfigFileProtocolHandler()
    try:
        h.handle(b"FILES,inYT_C09.xml,inXM_S09.xml", SENDER)
        sx.check(False, "rt.files.dissimilar-platforms-rejected")
    except ValueError:
        sx.check(True, "rt.files.dissimilar-platforms-rejected")


def m_status_request(sx):
    import geckolib.driver.protocol as P
    from sx.loader import STRUCT_SHIM as S
    seq, start, length = sx.byte("seq"), sx.word("start"), sx.word("length")
    full = sx.choice("full", 2)
    if full:
        m = P.GeckoStatusBlockProtocolHandler.full_request(seq, parms=PARMS)
        start, length = 0, 1024
    else:
        m = P.GeckoStatusBlockProtocolHandler.request(seq, start, length, parms=PARMS)
    sx.check(m._content == b"STATU" + S.pack(">B", seq) + S.pack(">HH", start, length), "lay.statu")
    sx.check(m.start == start, "rt.statu.builder-remembers-start")
    h = deliver(sx, m._content, "GeckoStatusBlockProtocolHandler", "statu")
    sx.observe("decoded", (h.sequence, h.start, h.length))
    sx.check(all_eq((h.sequence, h.start, h.length), (seq, start, length)), "rt.statu.fields")


def m_status_response(tier):
    lens = _len_choices(tier)

    def scenario(sx):
        import geckolib.driver.protocol as P
        from sx.loader import STRUCT_SHIM as S
        n = lens[sx.choice("len_idx", len(lens))]
        idx, nxt = sx.byte("index"), sx.byte("next")
        data = sx.bytes_("data", n)
        m = P.GeckoStatusBlockProtocolHandler.response(idx, nxt, data, parms=PARMS)
        sx.check(m._content == b"STATV" + S.pack(">BBB", idx, nxt, n) + data, "lay.statv")
        h = deliver(sx, m._content, "GeckoStatusBlockProtocolHandler", "statv")
        sx.observe("decoded", (h.sequence, h.next, h.length, h.data))
        sx.check(all_eq((h.sequence, h.next, h.length), (idx, nxt, n)), "rt.statv.fields")
        sx.check(h.data == data, "rt.statv.payload")
        # the same through the packet framing
        p = P.GeckoPacketProtocolHandler()
        p.handle(m.send_bytes, DEST)
        sx.check(p.packet_content == m._content, "rt.statv.through-framing")
    return scenario


def m_partial(sx):
    import geckolib.driver.protocol as P
    from sx.loader import STRUCT_SHIM as S
    c = sx.choice("count", 4)
    changes = [(sx.word(f"pos{i}"), sx.bytes_(f"val{i}", 2)) for i in range(c)]
    m = P.GeckoPartialStatusBlockProtocolHandler.report_changes(_Sock(), changes, parms=PARMS)
    ref = b"STATP" + bytes([c])
    for p_, v in changes:
        ref = ref + S.pack(">H", p_) + v
    sx.check(m._content == ref, "lay.statp")
    for async_ in (False, True):
        exclusive(sx, m._content, "GeckoPartialStatusBlockProtocolHandler", "statp")
        sock = _Sock()
        if async_:
            from .common import drive
            h = P.GeckoAsyncPartialStatusBlockProtocolHandler(sock)
            drive(h.async_handle(m._content, SENDER))
        else:
            h = P.GeckoPartialStatusBlockProtocolHandler(sock)
            h.handle(m._content, SENDER)
        tag = "async" if async_ else "sync"
        sx.check(len(h.changes) == c, f"rt.statp.count.{tag}")
        for i in range(min(c, len(h.changes))):
            sx.check((h.changes[i][0] == changes[i][0]) & (h.changes[i][1] == changes[i][1]), f"rt.statp.change.{tag}")
        sx.check(len(sock.sent) == 1, f"rt.statp.ack.{tag}")
        q = sock.sent[0]._content
        sx.check(q[:5] == b"STATQ" and len(q) == 6, f"lay.statq.{tag}")
        exclusive(sx, q, "GeckoPartialStatusBlockProtocolHandler", "statq")
        h2 = P.GeckoPartialStatusBlockProtocolHandler(_Sock())
        h2.handle(q, SENDER)
        sx.check(h2.sequence == q[5], f"rt.statq.sequence.{tag}")


def m_pack_set_value(sx):
    import geckolib.driver.protocol as P
    from sx.loader import STRUCT_SHIM as S
    seq, pt, cv, lv = sx.byte("seq"), sx.byte("pack_type"), sx.byte("cfg"), sx.byte("log")
    pos = sx.word("pos")
    ln = 1 + sx.choice("len", 2)
    val = sx.int_("value", 0, 255 if ln == 1 else 65535)
    m = P.GeckoPackCommandProtocolHandler.set_value(seq, pt, cv, lv, pos, ln, val, parms=PARMS)
    ref = b"SPACK" + S.pack(">BB", seq, pt) + bytes([5 + ln, 70]) + S.pack(">BB", cv, lv) + S.pack(">H", pos) \
        + S.pack(">B" if ln == 1 else ">H", val)
    sx.check(m._content == ref, "lay.spack-set")
    h = deliver(sx, m._content, "GeckoPackCommandProtocolHandler", "spack-set")
    sx.observe("decoded", (h._sequence, h.pack_type, h.position, h.new_data))
    sx.check(h.is_set_value and not h.is_key_press, "rt.spack-set.kind")
    sx.check(all_eq((h._sequence, h.pack_type, h.position), (seq, pt, pos)), "rt.spack-set.fields")
    sx.check(h.new_data == S.pack(">B" if ln == 1 else ">H", val), "rt.spack-set.data")
    try:
        P.GeckoPackCommandProtocolHandler.set_value(seq, pt, cv, lv, pos, 3, 0, parms=PARMS)
        sx.check(False, "rt.spack-set.bad-length-rejected")
    except OverflowError:
        sx.check(True, "rt.spack-set.bad-length-rejected")


def m_pack_keypress(sx):
    import geckolib.driver.protocol as P
    from sx.loader import STRUCT_SHIM as S
    seq, pt, key = sx.byte("seq"), sx.byte("pack_type"), sx.byte("key")
    m = P.GeckoPackCommandProtocolHandler.keypress(seq, pt, key, parms=PARMS)
    sx.check(m._content == b"SPACK" + S.pack(">BB", seq, pt) + bytes([2, 57]) + S.pack(">B", key), "lay.spack-key")
    h = deliver(sx, m._content, "GeckoPackCommandProtocolHandler", "spack-key")
    sx.observe("decoded", (h._sequence, h.pack_type, h.keycode))
    sx.check(h.is_key_press and not h.is_set_value, "rt.spack-key.kind")
    sx.check(all_eq((h._sequence, h.pack_type, h.keycode), (seq, pt, key)), "rt.spack-key.fields")


def m_pack_sequence(sx):
    """a long-lived peer instance (as the simulator registers) decodes every message from the message alone:
    two SPACK messages of any kinds in a row on the same handler object"""
    import geckolib.driver.protocol as P
    from sx.loader import STRUCT_SHIM as S
    h = P.GeckoPackCommandProtocolHandler()
    for step in range(2):
        kind = sx.choice(f"kind{step}", 3)
        seq, pt = sx.byte(f"seq{step}"), sx.byte(f"pt{step}")
        if kind == 0:
            key = sx.byte(f"key{step}")
            m = P.GeckoPackCommandProtocolHandler.keypress(seq, pt, key, parms=PARMS)
        else:
            pos = sx.word(f"pos{step}")
            val = sx.int_(f"val{step}", 0, 255 if kind == 1 else 65535)
            m = P.GeckoPackCommandProtocolHandler.set_value(seq, pt, 1, 2, pos, kind, val, parms=PARMS)
        sx.check(h.can_handle(m._content, SENDER), "rt.spack-seq.claimed")
        h.handle(m._content, SENDER)
        sx.observe(f"kinds{step}", (h.is_key_press, h.is_set_value))
        if kind == 0:
            sx.check(h.is_key_press and not h.is_set_value, f"rt.spack-seq.kind.step{step}",
                     lambda: f"key={h.is_key_press} set={h.is_set_value}")
            sx.check(all_eq((h._sequence, h.pack_type, h.keycode), (seq, pt, key)), f"rt.spack-seq.fields.step{step}")
        else:
            sx.check(h.is_set_value and not h.is_key_press, f"rt.spack-seq.kind.step{step}",
                     lambda: f"key={h.is_key_press} set={h.is_set_value}")
            sx.check(all_eq((h._sequence, h.pack_type, h.position), (seq, pt, pos)), f"rt.spack-seq.fields.step{step}")
            sx.check(h.new_data == S.pack(">B" if kind == 1 else ">H", val), f"rt.spack-seq.data.step{step}")


def m_other_sequences(sx):
    """same-instance sequences for the other multi-verb handlers"""
    import geckolib.driver.protocol as P
    from sx.loader import STRUCT_SHIM as S
    which = sx.choice("which", 6)
    if which == 5:
        # two handler instances in one process (two connections, a reconnect): each decodes its own message only
        hs = [P.GeckoPartialStatusBlockProtocolHandler(None), P.GeckoPartialStatusBlockProtocolHandler(None)]
        chs = []
        for k, h in enumerate(hs):
            n = 1 + sx.choice(f"changes{k}", 2)
            ch = [(sx.word(f"pos{k}_{i}"), sx.bytes_(f"data{k}_{i}", 2)) for i in range(n)]
            chs.append(ch)
            m = P.GeckoPartialStatusBlockProtocolHandler.report_changes(None, ch, parms=PARMS)

            class Sock:
                def queue_send(self, *a):
                    pass

                def get_and_increment_sequence_counter(self, cmd):
                    return 7
            h._socket = Sock()
            h.handle(m._content, SENDER)
        for h, ch in zip(hs, chs):
            sx.check(len(h.changes) == len(ch), "rt.seq.statp-instances-independent", lambda: f"{len(h.changes)} for {len(ch)}")
            for (p0, d0), (p1, d1) in zip(ch, h.changes):
                sx.check((p0 == p1) & (d0 == d1), "rt.seq.statp-change")
        return
    if which == 3:
        # the asyncio client keeps one partial-update handler for the whole connection: the second message decodes to
        # its own changes only
        from .common import drive

        class Proto:
            sent = []

            def queue_send(self, h, *a):
                self.sent.append(h)

            def get_and_increment_sequence_counter(self, cmd):
                return 7
        h = P.GeckoAsyncPartialStatusBlockProtocolHandler(Proto())
        for step in range(2):
            n = sx.choice(f"changes{step}", 3)
            ch = [(sx.word(f"pos{step}_{i}"), sx.bytes_(f"data{step}_{i}", 2)) for i in range(n)]
            m = P.GeckoPartialStatusBlockProtocolHandler.report_changes(None, ch, parms=PARMS)
            drive(h.async_handle(m._content, SENDER))
            sx.check(len(h.changes) == n, "rt.seq.statp-change-count", lambda: f"{len(h.changes)} for {n}")
            for (p0, d0), (p1, d1) in zip(ch, h.changes):
                sx.check((p0 == p1) & (d0 == d1), "rt.seq.statp-change")
        return
    if which == 4:
        # one long-lived packet handler (simulator, spa socket, consume loop) receiving from two different peers:
        # sender parameters and payload are those of the packet just received
        from .common import frame
        h = P.GeckoPacketProtocolHandler()
        for step in range(2):
            src = [b"IOSaaa", b"ANDbbb"][step] if sx.choice(f"distinct_ids{step}", 2) else b"SAMEID"
            dst = b"SPA" + sx.bytes_(f"dst{step}", 2)
            sx.assume(ident_ok(dst))
            addr = (f"10.0.0.{step + 1}", 10022 + step)
            payload = b"APING" + sx.bytes_(f"seq{step}", 1)
            h.handle(frame(payload, src, dst), addr)
            sx.check(h.parms[0] == addr[0] and h.parms[1] == addr[1], "rt.seq.packet-sender-address", lambda: str(h.parms[:2]))
            sx.check((h.parms[2] == src) & (h.parms[3] == dst), "rt.seq.packet-identifiers")
            sx.check(h.packet_content == payload, "rt.seq.packet-content")
        return
    if which == 0:
        h = P.GeckoWatercareProtocolHandler()
        order = [(b"GETWC", False), (b"REQWC", True)]
        if sx.choice("swap", 2):
            order.reverse()
        for verb, sched in order:
            seq = sx.byte(f"seq_{verb.decode()}")
            h.handle(verb + S.pack(">B", seq), SENDER)
            sx.check((h._sequence == seq) & (h.schedule is sched), "rt.seq.watercare")
        mode = sx.byte("mode")
        h.handle(b"WCGET" + S.pack(">B", mode), SENDER)
        sx.check((h.mode == mode) & (h.schedule is False), "rt.seq.watercare-response")
    elif which == 1:
        h = P.GeckoStatusBlockProtocolHandler()
        for step in range(2):
            if sx.choice(f"statv{step}", 2):
                i, n = sx.byte(f"i{step}"), sx.byte(f"n{step}")
                d = sx.bytes_(f"d{step}", 3)
                h.handle(b"STATV" + S.pack(">BBB", i, n, 3) + d, SENDER)
                sx.check(all_eq((h.sequence, h.next, h.length), (i, n, 3)) & (h.data == d), "rt.seq.statv")
            else:
                q, st, ln = sx.byte(f"q{step}"), sx.word(f"st{step}"), sx.word(f"ln{step}")
                h.handle(b"STATU" + S.pack(">B", q) + S.pack(">HH", st, ln), SENDER)
                sx.check(all_eq((h.sequence, h.start, h.length), (q, st, ln)), "rt.seq.statu")
    else:
        h = P.GeckoHelloProtocolHandler(b"")
        msgs = [(b"<HELLO>1</HELLO>", "b"), (b"<HELLO>IOSabc</HELLO>", "c"), (b"<HELLO>SPA01|My Spa</HELLO>", "s")]
        for step in range(2):
            data, k = msgs[sx.choice(f"m{step}", 3)]
            h.handle(data, SENDER)
            sx.check(h.was_broadcast_discovery == (k == "b"), "rt.seq.hello-broadcast")
            sx.check((h._client_identifier == b"IOSabc") if k == "c" else (h._client_identifier is None), "rt.seq.hello-client")
            sx.check((h._spa_identifier == b"SPA01" and h._spa_name == "My Spa") if k == "s"
                     else (h._spa_identifier is None and h._spa_name is None), "rt.seq.hello-spa")


def m_watercare(sx):
    import geckolib.driver.protocol as P
    from sx.loader import STRUCT_SHIM as S
    which = sx.choice("which", 3)
    if which == 0:
        mode = sx.byte("mode")
        m = P.GeckoWatercareProtocolHandler.response(mode, parms=PARMS)
        sx.check(m._content == b"WCGET" + S.pack(">B", mode), "lay.wcget")
        h = deliver(sx, m._content, "GeckoWatercareProtocolHandler", "wcget")
        sx.observe("mode", h.mode)
        sx.check((h.mode == mode) & (h.schedule is False), "rt.wcget.mode")
        sx.check(h.should_remove_handler, "rt.wcget.completes")
    elif which == 1:
        seq, mode = sx.byte("seq"), sx.byte("mode")
        m = P.GeckoWatercareProtocolHandler.set(seq, mode, parms=PARMS)
        sx.check(m._content == b"SETWC" + S.pack(">BB", seq, mode), "lay.setwc")
        deliver(sx, m._content, "GeckoWatercareProtocolHandler", "setwc")
    else:
        seq = sx.byte("seq")
        data = b"REQWC" + S.pack(">B", seq)
        h = deliver(sx, data, "GeckoWatercareProtocolHandler", "reqwc")
        sx.check((h._sequence == seq) & (h.schedule is True), "rt.reqwc")
        exclusive(sx, b"WCSET", "GeckoWatercareProtocolHandler", "wcset")
        exclusive(sx, b"WCERR", "GeckoWatercareErrorHandler", "wcerr")


def m_reminders(tier):
    maxrec = 2 if tier == "quick" else 3

    def scenario(sx):
        import geckolib.driver.protocol as P
        from sx.loader import STRUCT_SHIM as S
        n = sx.choice("records", maxrec + 1)
        recs = [(sx.int_(f"type{i}", 0, 9), sx.int_(f"days{i}", -32768, 32767)) for i in range(n)]
        m = P.GeckoRemindersProtocolHandler.response(recs, parms=PARMS)
        ref = b"RMREQ"
        for t, d in recs:
            ref = ref + S.pack("<B", t) + S.pack("<h", d) + b"\x01"
        sx.check(m._content == ref, "lay.rmreq")
        h = deliver(sx, m._content, "GeckoRemindersProtocolHandler", "rmreq")
        # at this point every type is concrete on this path (enum construction forks)
        exp = []
        for t, d in recs:
            tv = int(t)
            if tv <= 6:
                exp.append((P.GeckoReminderType(tv), d))
        sx.observe("decoded", [(int(a), b) for a, b in h.reminders])
        sx.check(len(h.reminders) == len(exp), "rt.rmreq.count")
        for (a, b), (c, d) in zip(h.reminders, exp):
            sx.check((a is c) & (b == d), "rt.rmreq.record")
        sx.check(h.should_remove_handler, "rt.rmreq.completes")
    return scenario


def m_hello(sx):
    import geckolib.driver.protocol as P
    which = sx.choice("which", 2)
    if which == 0:
        pre = [b"IOS", b"AND"][sx.choice("prefix", 2)]
        cid = pre + sx.bytes_("client", 3)
        m = P.GeckoHelloProtocolHandler.client(cid)
        sx.check(m.send_bytes == b"<HELLO>" + cid + b"</HELLO>", "lay.hello-client")
        h = deliver(sx, m.send_bytes, "GeckoHelloProtocolHandler", "hello-client")
        sx.check(h.client_identifier == cid, "rt.hello-client.identifier")
        sx.check(not h.was_broadcast_discovery, "rt.hello-client.not-broadcast")
    else:
        ident = b"SPA" + sx.bytes_("ident", 2)
        sx.assume(ident_ok(ident))
        n = sx.choice("name_len", 4)
        name = sx.bytes_("name", n)
        name_s = name.decode("latin1") if n else ""
        m = P.GeckoHelloProtocolHandler.response(ident, name_s)
        sx.check(m.send_bytes == b"<HELLO>" + ident + b"|" + name + b"</HELLO>", "lay.hello-response")
        h = deliver(sx, m.send_bytes, "GeckoHelloProtocolHandler", "hello-response")
        sx.observe("decoded", (h.spa_identifier, h._spa_name))
        sx.check(h.spa_identifier == ident, "rt.hello-response.identifier")
        sx.check(h._spa_name == name_s, "rt.hello-response.name")


def ident_ok(b):
    """no '<' and no '|' in an identifier"""
    from sx.core import And
    conds = []
    for i in range(len(b)):
        x = b[i]
        conds.append((x != 60) & (x != 124))
    return And(*conds) if conds else True


# ---------------------------------------------------------------------------
# (c) framing with fully symbolic payload and identifiers


def framing(tier):
    lens = [0, 1, 14, 15, 16, 31, 40] if tier == "quick" else list(range(49))

    def scenario(sx):
        import geckolib.driver.protocol as P
        n = lens[sx.choice("len_idx", len(lens))]
        src = b"S" + sx.bytes_("src", 3)
        dst = b"I" + sx.bytes_("dst", 3)
        sx.assume(ident_ok(src) & ident_ok(dst))
        payload = sx.bytes_("payload", n)
        m = P.GeckoPacketProtocolHandler(content=payload, parms=(DEST[0], DEST[1], dst, src))
        wire = m.send_bytes
        sx.check(wire == frame(payload, src, dst), "lay.packet")
        exclusive(sx, wire, "GeckoPacketProtocolHandler", "packet")
        h = P.GeckoPacketProtocolHandler()
        h.handle(wire, DEST)
        sx.observe("decoded", (h.parms, h.packet_content))
        sx.check(h.parms[2] is not None, "frm.parsed")
        sx.check(h.parms[2] == src, "frm.source", lambda: f"{h.parms[2]!r} vs {src!r}")
        sx.check(h.parms[3] == dst, "frm.destination", lambda: f"{h.parms[3]!r} vs {dst!r}")
        sx.check(h.packet_content == payload, "frm.payload", lambda: f"{h.packet_content!r} vs {payload!r}")
        sx.check((h.parms[0], h.parms[1]) == DEST, "frm.sender-address")
        # a reply built from the received packet goes back to its sender, identifiers swapped
        reply = P.GeckoPacketProtocolHandler(content=b"APING\x00", parms=h.parms)
        sx.check(reply.send_bytes == frame(b"APING\x00", dst, src), "frm.reply-addressing")
    return scenario


def not_a_packet(sx):
    import geckolib.driver.protocol as P
    h = P.GeckoPacketProtocolHandler()
    data = sx.bytes_("data", 15)
    starts = data[:7] == b"<PACKT>"
    ends = data[7:] == b"</PACKT>"
    sx.check(h.can_handle(data, SENDER) == (starts & ends), "frm.can-handle-iff-framed")


def m_statp_ack_per_update(sx):
    """one long-lived threaded STATP listener, two updates from two different peers: every queued acknowledgement,
    read when the engine gets round to sending it (after both arrived), is the STATQ built for ITS update - its own
    sequence byte, addressed back to its own sender with the identifiers swapped (round-7 seeded change)."""
    import geckolib.driver.protocol as P
    queued = []
    seqs = [sx.int_("seq0", 1, 191), sx.int_("seq1", 1, 191)]

    class Sock:
        def queue_send(self, h, dest=None):
            queued.append((h, dest))

        def get_and_increment_sequence_counter(self, cmd=False):
            return seqs[len(queued)]
    senders = [SENDER, ("10.9.8.7", 10022, b"SPA0a:0b:0c:0d:0e:0f", b"IOS11111111-2222-3333-4444-555555555555")]
    h = P.GeckoPartialStatusBlockProtocolHandler(Sock())
    for k, snd in enumerate(senders):
        ch = [(sx.word(f"pos{k}"), sx.bytes_(f"data{k}", 2))]
        m = P.GeckoPartialStatusBlockProtocolHandler.report_changes(None, ch, parms=snd)
        sx.check(h.can_handle(m._content, snd), "rt.seq.statp-claimed")
        h.handle(m._content, snd)
        h.changes.clear()          # what the client's on-handled callback does
    sx.check(len(queued) == 2, "rt.seq.one-ack-per-update", lambda: str(len(queued)))
    for k, ((a, dest), snd) in enumerate(zip(queued, senders)):
        exp = (b"<PACKT><SRCCN>" + snd[3] + b"</SRCCN><DESCN>" + snd[2] + b"</DESCN><DATAS>STATQ")
        data = a.send_bytes
        sx.check(dest == snd, f"rt.seq.ack{k}-sent-to-its-sender")
        sx.check(len(data) == len(exp) + 1 + 16, f"rt.seq.ack{k}-length", lambda: str(len(data)))
        sx.check(data[:len(exp)] == exp, f"rt.seq.ack{k}-addressed-back-with-identifiers-swapped")
        sx.check(data[len(exp)] == seqs[k], f"rt.seq.ack{k}-carries-the-sequence-it-was-built-from",
                 lambda: f"{data[len(exp)]} vs {seqs[k]}")
        sx.check(data[len(exp) + 1:] == b"</DATAS></PACKT>", f"rt.seq.ack{k}-closing-tags")


def units(tier):
    yield Unit("msg.requests", m_simple_requests)
    yield Unit("msg.fixed", m_fixed)
    yield Unit("msg.version-response", m_version_response)
    yield Unit("msg.channel-response", m_channel_response)
    yield Unit("msg.files", m_files)
    yield Unit("msg.status-request", m_status_request)
    yield Unit("msg.status-response", m_status_response(tier))
    yield Unit("msg.partial", m_partial)
    yield Unit("msg.pack-set-value", m_pack_set_value)
    yield Unit("msg.pack-keypress", m_pack_keypress)
    yield Unit("msg.watercare", m_watercare)
    yield Unit("msg.pack-sequence", m_pack_sequence)
    yield Unit("msg.other-sequences", m_other_sequences)
    yield Unit("msg.statp-ack-per-update", m_statp_ack_per_update)
    yield Unit("msg.reminders", m_reminders(tier))
    yield Unit("msg.hello", m_hello, max_paths=50000)
    lens = 7 if tier == "quick" else 49
    for i in range(lens):
        yield Unit(f"framing.len{i}", framing(tier), presets={"len_idx": i}, fresh_checks=True,
                   query_timeout_ms=300000)
    yield Unit("framing.not-a-packet", not_a_packet)
