"""C05 - partial updates are applied exactly once, in arrival order, and acknowledged.

Real STATP/STATQ handlers of both clients + the real on-update callbacks + the
real structure patching, with symbolic block, symbolic change positions/values,
an arbitrary pending-change list in the handler before the first message
(inductive pre-state) and refreshes interleaved between messages.
"""
from __future__ import annotations

from .common import Unit, FakeTransport, content_offset, drive, SRC_ID, CLI_ID, DEST
from .c16 import _Desc, _MonLock

PROPERTY = "C05"
FUNCTIONS = [
    "GeckoAsyncPartialStatusBlockProtocolHandler.can_handle/async_handle", "GeckoUdpProtocolHandler.async_handled",
    "GeckoAsyncSpa._async_on_partial_status_update", "GeckoPartialStatusBlockProtocolHandler.can_handle/handle",
    "GeckoUdpProtocolHandler.handled", "GeckoSpa._on_partial_status_update", "GeckoUdpSocket.dispatch_recevied_data",
    "GeckoAsyncStructure/GeckoStructure.replace_status_block_segment", "get_and_increment_sequence_counter (both)",
    "GeckoPacketProtocolHandler.send_bytes (STATQ)", "GeckoAsyncUdpProtocol.queue_send",
]


def bounds(tier):
    m = 2 if tier == "quick" else 3
    return {"messages": f"<= {m} partial-update messages, 0..3 changes each (positions 0..1022, 2-byte values symbolic), "
                        "or one simulator-style message with a single 1-byte change",
            "refresh": "optionally a refresh (symbolic offset, 1..3 symbolic bytes) before each message",
            "pre-state": "async: arbitrary pending list of <= 2 symbolic changes; threaded: empty list (invariant, "
                         "re-established by every step - asserted)",
            "counters": "protocol 0..191 symbolic"}


ASSUMPTIONS = [
    "a change never grows the block (position + length <= 1024)",
    "reference fold: block[pos:pos+len] := bytes, applied once per change in arrival order",
    "the async consume() loop that calls async_handle then async_handled is covered by C07; here the two calls are "
    "made back to back, which is the only order the loop produces",
]
SITES = ["pu.*"]
SENDER = (DEST[0], DEST[1], SRC_ID, CLI_ID)


def _statp(changes):
    """Independent encoder of a STATP payload: count, then (pos16, data) records."""
    from sx.loader import STRUCT_SHIM
    out = b"STATP" + bytes([len(changes)])
    for pos, data in changes:
        out = out + STRUCT_SHIM.pack(">H", pos) + data
    return out


def _apply(ref, pos, data):
    n = len(data)
    return ref[0:pos] + data + ref[pos + n:]


def _script_overlap(sx):
    """one message, three changes whose positions come from a tiny window (repeats and overlaps of the
    2-byte words are then common), values symbolic"""
    base = 300
    return [("msg", [(base + sx.choice(f"p{i}", 3), sx.bytes_(f"v{i}", 2)) for i in range(3)])]


def _script(sx, nmsg, one_byte):
    if nmsg == "overlap":
        return _script_overlap(sx)
    """[(kind, ...)]: refreshes and messages with symbolic contents."""
    ops = []
    for k in range(nmsg):
        if sx.choice(f"refresh{k}", 2):
            n = 1 + sx.choice(f"rlen{k}", 3)
            ops.append(("refresh", sx.int_(f"roff{k}", 0, 1024 - n), sx.bytes_(f"rdata{k}", n)))
        if one_byte:
            ops.append(("msg", [(sx.int_(f"p{k}", 0, 1023), sx.bytes_(f"v{k}", 1))]))
        else:
            c = sx.choice(f"count{k}", 4)
            ops.append(("msg", [(sx.int_(f"p{k}_{i}", 0, 1022), sx.bytes_(f"v{k}_{i}", 2)) for i in range(c)]))
    if sx.choice("final_statq", 2):
        ops.append(("statq", sx.int_("qseq", 0, 255)))
    return ops


def _next_seq(prev):
    from sx.core import Ite
    return Ite(prev == 191, 1, prev + 1)


def _check_ack(sx, data, src, dst, tag, expect_seq=None):
    off = content_offset(src, dst)
    sx.check(len(data) == off + 6 + 8 + 8, f"pu.ack-length.{tag}")
    sx.check(data[off:off + 5] == b"STATQ", f"pu.ack-verb.{tag}")
    seq = data[off + 5]
    sx.observe("ackseq", seq)
    sx.check((seq >= 1) & (seq <= 191), f"pu.ack-sequence-range.{tag}")
    if expect_seq is not None:
        # nothing else draws from this connection's counter in these scenarios
        sx.check(seq == expect_seq, f"pu.ack-carries-the-next-protocol-number.{tag}", lambda: f"{seq} vs {expect_seq}")
    sx.check(data[:off] == b"<PACKT><SRCCN>" + src + b"</SRCCN><DESCN>" + dst + b"</DESCN><DATAS>",
             f"pu.ack-addressing.{tag}")


def async_client(nmsg, one_byte=False):
    def scenario(sx):
        from geckolib.async_spa import GeckoAsyncSpa
        from geckolib.driver import GeckoAsyncUdpProtocol, GeckoAsyncPartialStatusBlockProtocolHandler
        from geckolib.async_spa_descriptor import GeckoAsyncSpaDescriptor

        async def ev(*a, **k):
            pass
        from sx.vloop import VLoop
        vl = VLoop()
        spa = GeckoAsyncSpa(CLI_ID, GeckoAsyncSpaDescriptor(SRC_ID, "spa", DEST), None, ev)
        proto = GeckoAsyncUdpProtocol(None, DEST)
        proto.transport = FakeTransport()
        proto._sequence_counter_protocol = seqno = sx.int_("protocol_counter", 0, 191)
        spa._protocol = proto
        blk = sx.block("block", 1024)
        spa.struct.set_status_block(blk)
        h = GeckoAsyncPartialStatusBlockProtocolHandler(proto, async_on_handled=spa._async_on_partial_status_update)
        # inductive pre-state: whatever an earlier message left behind
        for j in range(sx.choice("pending", 3)):
            h.changes.append((sx.int_(f"pend_p{j}", 0, 1022), sx.bytes_(f"pend_v{j}", 2)))
        ref = blk
        nsent = 0
        for op in _script(sx, nmsg, one_byte):
            if op[0] == "refresh":
                spa.struct.replace_status_block_segment(op[1], op[2])
                ref = _apply(ref, op[1], op[2])
                continue
            if op[0] == "statq":
                data = b"STATQ" + bytes([op[1]]) if isinstance(op[1], int) else _statq(op[1])
            else:
                data = _statp(op[1])
            sx.check(h.can_handle(data, SENDER), "pu.claimed")
            vl.run_until_complete(h.async_handle(data, SENDER), max_time=vl.time() + 5)
            vl.run_until_complete(h.async_handled(SENDER), max_time=vl.time() + 5)
            if op[0] == "msg":
                nsent += 1
                for pos, val in op[1]:
                    ref = _apply(ref, pos, val)
                sx.check(len(proto.transport.sent) == nsent, "pu.one-ack-per-update", lambda: str(len(proto.transport.sent)))
                _check_ack(sx, proto.transport.sent[-1][0], CLI_ID, SRC_ID, "async")
            else:
                sx.check(len(proto.transport.sent) == nsent, "pu.no-ack-for-statq")
        sx.check_bytes_equal(spa.struct.status_block, ref, "pu.block-is-fold-of-updates")
    return scenario


def refresh_interleaved(sx):
    """a partial update arrives between two segments of a running refresh (real struct.get holding the protocol
    lock, real partial-update consumer polling the same queue): arrival order decides - the update is applied when
    it arrives, the refresh data installed afterwards wins where they overlap"""
    import asyncio
    from sx.vloop import VLoop, patched_time, FakeDatagramTransport
    from geckolib.async_spa import GeckoAsyncSpa
    from geckolib.driver import (GeckoAsyncUdpProtocol, GeckoAsyncPartialStatusBlockProtocolHandler,
                                 GeckoStatusBlockProtocolHandler)
    from geckolib.async_spa_descriptor import GeckoAsyncSpaDescriptor
    from geckolib.config import GeckoConfig
    from sx.loader import STRUCT_SHIM
    saved = GeckoConfig.PROTOCOL_TIMEOUT_IN_SECONDS
    GeckoConfig.PROTOCOL_TIMEOUT_IN_SECONDS = 1.0
    loop = VLoop()
    try:
        with patched_time(loop):
            async def ev(*a, **k):
                pass
            spa = GeckoAsyncSpa(CLI_ID, GeckoAsyncSpaDescriptor(SRC_ID, "spa", DEST), None, ev)
            proto = GeckoAsyncUdpProtocol(None, DEST)
            proto.connection_made(FakeDatagramTransport(loop, proto))
            spa._protocol = proto
            blk = sx.block("block", 1024)
            spa.struct.set_status_block(blk)
            h = GeckoAsyncPartialStatusBlockProtocolHandler(proto, async_on_handled=spa._async_on_partial_status_update)
            seg0, seg1 = sx.bytes_("seg0", 4), sx.bytes_("seg1", 4)
            upd_pos = 100 + sx.choice("update_position", 8)        # inside / beside the refreshed range 100..107
            upd = sx.bytes_("update", 2)
            when = sx.choice("update_arrives", 3)                  # before seg0 / between the segments / after the final one

            def statv(i, nxt, data):
                return b"STATV" + bytes([i, nxt, len(data)]) + data

            async def env():
                await asyncio.sleep(0.05)
                order = [("v", statv(0, 1, seg0)), ("v", statv(1, 0, seg1))]
                order.insert(when, ("p", b"STATP\x01" + STRUCT_SHIM.pack(">H", upd_pos) + upd))
                for kind, d in order:
                    proto.datagram_received(d, SENDER)
                    await asyncio.sleep(0.35)

            async def main():
                c = asyncio.ensure_future(h.consume(proto))
                e = asyncio.ensure_future(env())
                ok = await spa.struct.get(proto, lambda: GeckoStatusBlockProtocolHandler.request(1, 100, 8, parms=SENDER), 1)
                await e
                await asyncio.sleep(0.3)
                c.cancel()
                return ok
            ok = loop.run_until_complete(main(), max_time=60.0)
            sx.check(ok is True, "pu.refresh-completes")
            ref = blk
            events = [("r0", None), ("r1", None)]
            events.insert(when, ("p", None))
            # the refresh installs both segments when its final segment arrives; the update applies on arrival
            for kind, _ in events:
                if kind == "p":
                    ref = _apply(ref, upd_pos, upd)
                elif kind == "r1":
                    ref = _apply(ref, 100, seg0 + seg1)
            sx.check_bytes_equal(spa.struct.status_block, ref, "pu.block-is-fold-of-updates")
        loop.cancel_all()
    finally:
        GeckoConfig.PROTOCOL_TIMEOUT_IN_SECONDS = saved


def burst_through_consumer(sx):
    """two or three partial updates arrive back to back before the client's consumer task wakes (the real consume()
    loop on the virtual loop): each is applied and each is acknowledged once"""
    import asyncio
    from sx.vloop import VLoop, patched_time, FakeDatagramTransport
    from geckolib.async_spa import GeckoAsyncSpa
    from geckolib.driver import GeckoAsyncUdpProtocol, GeckoAsyncPartialStatusBlockProtocolHandler
    from geckolib.async_spa_descriptor import GeckoAsyncSpaDescriptor
    from sx.loader import STRUCT_SHIM
    from .common import content_offset
    loop = VLoop()
    with patched_time(loop):
        async def ev(*a, **k):
            pass
        spa = GeckoAsyncSpa(CLI_ID, GeckoAsyncSpaDescriptor(SRC_ID, "spa", DEST), None, ev)
        proto = GeckoAsyncUdpProtocol(None, DEST)
        sent = []
        proto.connection_made(FakeDatagramTransport(loop, proto, lambda tr, d, a: sent.append(d)))
        spa._protocol = proto
        blk = sx.bytes_("block", 16)
        spa.struct.set_status_block(blk)
        h = GeckoAsyncPartialStatusBlockProtocolHandler(proto, async_on_handled=spa._async_on_partial_status_update)
        n = 2 + sx.choice("burst", 2)
        ups = [(sx.int_(f"pos{i}", 0, 14), sx.bytes_(f"data{i}", 2)) for i in range(n)]

        async def main():
            c = asyncio.ensure_future(h.consume(proto))
            await asyncio.sleep(0.05)
            for p_, d in ups:
                proto.datagram_received(b"STATP\x01" + STRUCT_SHIM.pack(">H", p_) + d, SENDER)
            await asyncio.sleep(0.1 * n + 0.3)
            c.cancel()
        loop.run_until_complete(main(), max_time=60.0)
        ref = blk
        for p_, d in ups:
            ref = _apply(ref, p_, d)
        sx.check_bytes_equal(spa.struct.status_block, ref, "pu.block-is-fold-of-updates")
        off = content_offset(CLI_ID, SRC_ID)
        acks = [d for d in sent if bytes(d[off:off + 5]) == b"STATQ"]
        sx.check(len(acks) == n, "pu.one-ack-per-message.async", lambda: f"{len(acks)} for {n}")
    loop.cancel_all()


def _statq(seq):
    from sx.loader import STRUCT_SHIM
    return b"STATQ" + STRUCT_SHIM.pack(">B", seq)


def threaded_client(nmsg, one_byte=False):
    def scenario(sx):
        from geckolib.spa import GeckoSpa
        spa = GeckoSpa(_Desc())
        spa._lock = _MonLock()
        spa._sequence_counter_protocol = seqno = sx.int_("protocol_counter", 0, 191)
        blk = sx.block("block", 1024)
        spa.struct.set_status_block(blk)
        handler = [h for h in spa._receive_handlers if type(h).__name__ == "GeckoPartialStatusBlockProtocolHandler"]
        sx.check(len(handler) == 1, "pu.threaded-handler-installed")
        h = handler[0]
        ref = blk
        nsent = 0
        for op in _script(sx, nmsg, one_byte):
            if op[0] == "refresh":
                spa.struct.replace_status_block_segment(op[1], op[2])
                ref = _apply(ref, op[1], op[2])
                continue
            data = _statq(op[1]) if op[0] == "statq" else _statp(op[1])
            spa.dispatch_recevied_data(data, SENDER)     # real first-match dispatch, handle + handled
            if op[0] == "msg":
                nsent += 1
                for pos, val in op[1]:
                    ref = _apply(ref, pos, val)
                sx.check(len(spa._send_handlers) == nsent, "pu.one-ack-per-update", lambda: str(len(spa._send_handlers)))
                hh, dest = spa._send_handlers[-1]
                sx.check(dest == SENDER, "pu.ack-destination")
                seqno = _next_seq(seqno)
                _check_ack(sx, hh.send_bytes, CLI_ID, SRC_ID, "threaded", seqno)
            else:
                sx.check(len(spa._send_handlers) == nsent, "pu.no-ack-for-statq")
            sx.check(h.changes == [], "pu.threaded-pending-list-empty-after-step")
        sx.check_bytes_equal(spa.struct.status_block, ref, "pu.block-is-fold-of-updates")
    return scenario


def two_connections(threaded):
    """two client instances in one process, one after the other (a reconnect, or a second spa): the second
    one's block is the fold of ITS updates only, whatever the first one received (round-7 seeded change:
    state shared between instances)"""
    def scenario(sx):
        def mk(tag):
            if threaded:
                from geckolib.spa import GeckoSpa
                spa = GeckoSpa(_Desc())
                spa._lock = _MonLock()
                blk = sx.block("block" + tag, 1024)
                spa.struct.set_status_block(blk)

                def feed(data):
                    spa.dispatch_recevied_data(data, SENDER)
                return spa, blk, feed, (lambda: len(spa._send_handlers))
            from geckolib.async_spa import GeckoAsyncSpa
            from geckolib.driver import GeckoAsyncUdpProtocol, GeckoAsyncPartialStatusBlockProtocolHandler
            from geckolib.async_spa_descriptor import GeckoAsyncSpaDescriptor
            from sx.vloop import VLoop

            async def ev(*a, **k):
                pass
            vl = VLoop()
            spa = GeckoAsyncSpa(CLI_ID, GeckoAsyncSpaDescriptor(SRC_ID, "spa", DEST), None, ev)
            proto = GeckoAsyncUdpProtocol(None, DEST)
            proto.transport = FakeTransport()
            spa._protocol = proto
            blk = sx.block("block" + tag, 1024)
            spa.struct.set_status_block(blk)
            h = GeckoAsyncPartialStatusBlockProtocolHandler(proto, async_on_handled=spa._async_on_partial_status_update)

            def feed(data):
                vl.run_until_complete(h.async_handle(data, SENDER), max_time=vl.time() + 5)
                vl.run_until_complete(h.async_handled(SENDER), max_time=vl.time() + 5)
            return spa, blk, feed, (lambda: len(proto.transport.sent))
        refs = []
        for tag in ("A", "B"):
            spa, ref, feed, nacks = mk(tag)
            nmsg = 1 + sx.choice("msgs" + tag, 2)
            for k in range(nmsg):
                chg = [(sx.int_(f"p{tag}{k}_{i}", 0, 1022), sx.bytes_(f"v{tag}{k}_{i}", 2))
                       for i in range(1 + sx.choice(f"count{tag}{k}", 2))]
                feed(_statp(chg))
                for pos, val in chg:
                    ref = _apply(ref, pos, val)
                sx.check(nacks() == k + 1, "pu.one-ack-per-update", lambda: str(nacks()))
            refs.append((spa, ref))
        for spa, ref in refs:
            sx.check_bytes_equal(spa.struct.status_block, ref, "pu.block-is-fold-of-its-own-connections-updates")
    return scenario


def units(tier):
    m = 2 if tier == "quick" else 3
    # the exploration tree is split across processes by its first choices
    for pending in range(3):
        for c0 in range(4):
            yield Unit(f"async.{m}msgs.pending{pending}.count{c0}", async_client(m), max_paths=200000,
                       fresh_checks=True, presets={"pending": pending, "count0": c0})
    for r0 in range(2):
        for c0 in range(4):
            yield Unit(f"threaded.{m}msgs.refresh{r0}.count{c0}", threaded_client(m), max_paths=200000,
                       fresh_checks=True, presets={"refresh0": r0, "count0": c0})
    yield Unit("async.overlapping-changes", async_client("overlap"), fresh_checks=True)
    yield Unit("threaded.overlapping-changes", threaded_client("overlap"), fresh_checks=True)
    yield Unit("async.refresh-interleaved", refresh_interleaved, fresh_checks=True)
    yield Unit("async.burst-through-consumer", burst_through_consumer, fresh_checks=True)
    yield Unit("async.two-connections", two_connections(False), fresh_checks=True)
    yield Unit("threaded.two-connections", two_connections(True), fresh_checks=True)
    yield Unit("async.one-byte-change", async_client(1, True), fresh_checks=True)
    yield Unit("threaded.one-byte-change", threaded_client(1, True), fresh_checks=True)
