"""C06 - request engine: bounded retries, one request in flight, every caller completes.

Real GeckoAsyncUdpProtocol.get + wait_for_response + the real asyncio.Lock on the
virtual loop.  Per poll opportunity the environment delivers a matching reply, a
foreign datagram or nothing (symbolic choices); retry count, number of callers,
their start slots and which requests get answered are symbolic choices; the
connection gates are explored with a symbolic (real) ping age.
"""
from __future__ import annotations

from .common import Unit, SRC_ID, CLI_ID, DEST, content_offset

PROPERTY = "C06"
FUNCTIONS = ["GeckoAsyncUdpProtocol.get/queue_send/datagram_received/Lock", "DbgLock.__aenter__/__aexit__",
             "GeckoUdpProtocolHandler.wait_for_response/has_timedout/age/_reset_timeout", "config.config_sleep",
             "AsyncPeekableQueue.head/pop", "GeckoAsyncSpa.async_press/_on_async_set_value/async_get_watercare/"
             "async_set_watercare/async_get_reminders/is_responding_to_pings",
             "GeckoVersion/GetChannel/ConfigFile ProtocolHandler.request/can_handle/handle"]


def bounds(tier):
    q = tier == "quick"
    return {"timing": "PROTOCOL_TIMEOUT 0.25 s, PAUSE_BETWEEN_RETRIES 0.2 s of virtual time (3 polls per attempt): values of "
                      "the mutable GeckoConfig object",
            "single caller": f"retry count 1..{2 if q else 4} (with foreign traffic 1..{2 if q else 3}); at every poll opportunity: "
                             "nothing / matching reply / foreign datagram",
            "callers": f"2..{2 if q else 3} concurrent callers, start slots 0..2 polls apart, each request answered or never",
            "gates": "connected flag both ways, ping age a free real in [0, 500] s"}


ASSUMPTIONS = [
    "event-loop stalls are not modelled as unbounded delays (the literal completion bound cannot hold under them); tasks "
    "wake at their virtual deadlines, same-instant wake-ups in FIFO order",
    "replies are delivered unwrapped from <PACKT> framing (C04/C07)",
]
SITES = ["req.*", "mx.*", "gate.*"]
PARMS = (DEST[0], DEST[1], SRC_ID, CLI_ID)
TIMEOUT, PAUSE, POLL = 0.25, 0.2, 0.1


class Env:
    def __init__(self):
        from sx.vloop import VLoop, FakeDatagramTransport
        from geckolib.driver import GeckoAsyncUdpProtocol
        from geckolib.config import GeckoConfig
        import geckolib.config as gc
        self.gc = gc
        self.saved = (GeckoConfig.PROTOCOL_TIMEOUT_IN_SECONDS, GeckoConfig.PAUSE_BETWEEN_RETRIES_IN_SECONDS,
                      GeckoConfig.PROTOCOL_RETRY_COUNT, gc.ConfigChange)
        GeckoConfig.PROTOCOL_TIMEOUT_IN_SECONDS = TIMEOUT
        GeckoConfig.PAUSE_BETWEEN_RETRIES_IN_SECONDS = PAUSE
        self.loop = VLoop()
        gc.ConfigChange = None
        self.proto = GeckoAsyncUdpProtocol(None, DEST)
        self.on_send = None
        self.tr = FakeDatagramTransport(self.loop, self.proto, lambda tr, d, a: self.on_send and self.on_send(d))
        self.proto.connection_made(self.tr)

    def close(self):
        from geckolib.config import GeckoConfig
        (GeckoConfig.PROTOCOL_TIMEOUT_IN_SECONDS, GeckoConfig.PAUSE_BETWEEN_RETRIES_IN_SECONDS,
         GeckoConfig.PROTOCOL_RETRY_COUNT, self.gc.ConfigChange) = self.saved
        self.loop.cancel_all()


def _verb(data):
    off = content_offset(CLI_ID, SRC_ID)
    v = data[off:off + 5]
    return v.concrete() if hasattr(v, "concrete") else bytes(v)


def single_caller(maxretry, with_foreign):
    def scenario(sx):
        from sx.vloop import patched_time
        from geckolib.driver import GeckoVersionProtocolHandler
        env = Env()
        try:
            with patched_time(env.loop):
                R = 1 + sx.choice("retry_count", maxretry)
                made = []
                delivered = []

                def create():
                    h = GeckoVersionProtocolHandler.request(env.proto.get_and_increment_sequence_counter(False), parms=PARMS)
                    made.append(h)
                    return h

                nopts = 3 if with_foreign else 2

                def on_send(data):
                    a = len(env.tr.sent) - 1
                    if a >= R:
                        # more transmissions than the retry count: stop exploring this path here
                        sx.check(False, "req.at-most-retry-count-transmissions", f"transmission #{a + 1} with retry count {R}")
                        sx.assume(False)
                    # what arrives before each of the 3 polls of this attempt
                    for j in range(3):
                        c = sx.choice(f"attempt{a}_poll{j}", nopts)
                        if c == 1:
                            env.loop.call_later(POLL * j + 0.05, env.proto.datagram_received,
                                                KINDS[0][2], PARMS)
                            delivered.append(("match", a, j))
                        elif c == 2:
                            env.loop.call_later(POLL * j + 0.05, env.proto.datagram_received, b"RFERR", PARMS)
                            delivered.append(("foreign", a, j))
                env.on_send = on_send
                res = env.loop.run_until_complete(env.proto.get(create, None, R), max_time=100.0)
                t_end = env.loop.time()
                sends = len(env.tr.sent)
                sx.observe("sends", sends)
                sx.observe("result", res is not None)
                sx.check(1 <= sends <= R, "req.at-most-retry-count-transmissions", lambda: f"{sends} > {R}")
                sx.check(len(made) == sends and len(set(map(id, made))) == sends, "req.each-attempt-freshly-built")
                # oracle: the head of the queue decides - a matching reply is seen iff no foreign datagram is ahead of it
                seen = None
                blocked = False
                for kind, a, j in delivered:
                    if kind == "foreign":
                        blocked = True
                        break
                    seen = (a, j)
                    break
                if seen is not None and not blocked:
                    sx.check(res is made[seen[0]], "req.returns-the-request-that-was-answered")
                    sx.check(res.en_build == 1 and res.co_minor == 6, "req.reply-decoded")
                    sx.check(sends == seen[0] + 1, "req.no-transmission-after-the-answer")
                else:
                    sx.check(res is None, "req.failure-reported-when-no-reply-was-delivered-for-it")
                    sx.check(sends == R, "req.all-attempts-used-before-giving-up")
                bound = R * (TIMEOUT + PAUSE + POLL) + 1e-9
                sx.check(t_end <= bound, "req.finishes-within-retry-count-x-timeout-plus-pause",
                         lambda: f"{t_end} > {bound}")
                sx.check(not env.proto.Lock.locked(), "req.lock-released")
        finally:
            env.close()
    return scenario


KINDS = [("AVERS", "GeckoVersionProtocolHandler", b"SVERS\x00\x01\x02\x03\x00\x04\x05\x06"),
         ("CURCH", "GeckoGetChannelProtocolHandler", b"CHCUR\x0a\x21"),
         ("SFILE", "GeckoConfigFileProtocolHandler", b"FILES,inYT_C09.xml,inYT_S09.xml")]


def many_callers(maxcallers):
    def scenario(sx):
        import asyncio
        import geckolib.driver as D
        from sx.vloop import patched_time
        env = Env()
        try:
            with patched_time(env.loop):
                n = 2 + sx.choice("callers", maxcallers - 1)
                start = [sx.choice(f"start{i}", 3) * POLL for i in range(n)]
                answered = [bool(sx.choice(f"answered{i}", 2)) for i in range(n)]
                done_at, results, order_req = {}, {}, []

                def on_send(data):
                    v = _verb(data).decode()
                    i = [k[0] for k in KINDS].index(v)
                    if answered[i]:
                        env.loop.call_later(0.05, env.proto.datagram_received, KINDS[i][2], PARMS)
                env.on_send = on_send

                async def caller(i):
                    await asyncio.sleep(start[i])
                    order_req.append(i)
                    cls = getattr(D, KINDS[i][1])
                    r = await env.proto.get(
                        lambda: cls.request(env.proto.get_and_increment_sequence_counter(False), parms=PARMS), None, 2)
                    results[i] = r
                    done_at[i] = env.loop.time()

                async def main():
                    await asyncio.gather(*[asyncio.ensure_future(caller(i)) for i in range(n)])
                env.loop.run_until_complete(main(), max_time=200.0)
                sx.check(len(done_at) == n, "mx.every-caller-completes")
                # timeline of transmissions per caller
                tl = [([k[0] for k in KINDS].index(_verb(d).decode()), t) for (d, a, t) in env.tr.sent]
                sx.observe("timeline", [(i, round(t, 3)) for i, t in tl])
                for i in range(n):
                    mine = [t for (c, t) in tl if c == i]
                    sx.check(len(mine) >= 1, "mx.caller-transmitted")
                    first, end = min(mine), done_at[i]
                    others = [(c, t) for (c, t) in tl if c != i and first < t < end]
                    sx.check(not others, "mx.one-request-in-flight", lambda: f"caller {i} [{first},{end}] overlapped by {others}")
                    sx.check((results[i] is not None) == answered[i], "mx.reply-goes-to-its-caller")
                # served in arrival order (the order in which they asked for the lock)
                served = sorted(range(n), key=lambda i: min(t for (c, t) in tl if c == i))
                sx.check(served == order_req, "mx.served-in-arrival-order", lambda: f"{served} vs {order_req}")
        finally:
            env.close()
    return scenario


def abnormal_holder(sx):
    """a caller that leaves get() abnormally (its factory raises, or it is cancelled while its request is in
    flight) must not block the callers queued behind it"""
    import asyncio
    import geckolib.driver as D
    from sx.vloop import patched_time
    env = Env()
    try:
        with patched_time(env.loop):
            how = sx.choice("how", 2)          # 0: factory raises  1: cancelled in flight
            done = {}

            def on_send(data):
                v = _verb(data).decode()
                if v == "CURCH":
                    env.loop.call_later(0.05, env.proto.datagram_received, KINDS[1][2], PARMS)
            env.on_send = on_send

            def bad_factory():
                if how == 0:
                    raise OverflowError(4)
                return D.GeckoVersionProtocolHandler.request(1, parms=PARMS)

            async def bad():
                try:
                    await env.proto.get(bad_factory, None, 2)
                except OverflowError:
                    done["bad"] = "raised"

            async def good():
                await asyncio.sleep(0.05)
                r = await env.proto.get(lambda: D.GeckoGetChannelProtocolHandler.request(2, parms=PARMS), None, 2)
                done["good"] = r is not None

            async def main():
                tb = asyncio.ensure_future(bad())
                tg = asyncio.ensure_future(good())
                if how == 1:
                    await asyncio.sleep(0.15)
                    tb.cancel()
                await asyncio.wait([tb, tg], timeout=5.0)
            env.loop.run_until_complete(main(), max_time=50.0)
            sx.check(done.get("good") is True, "mx.caller-behind-an-abnormal-holder-completes", lambda: str(done))
            sx.check(not env.proto.Lock.locked(), "req.lock-released")
    finally:
        env.close()


def ping_gate(sx):
    """the real ping loop: after the spa stops answering, once the last answer is older than twice the ping
    period no command leaves, however long the silence lasts"""
    import asyncio
    from sx.vloop import patched_time
    from geckolib.async_spa import GeckoAsyncSpa
    from geckolib.async_spa_descriptor import GeckoAsyncSpaDescriptor
    from geckolib.config import GeckoConfig
    env = Env()
    saved = (GeckoConfig.PING_FREQUENCY_IN_SECONDS, GeckoConfig.PING_DEVICE_NOT_RESPONDING_TIMEOUT_IN_SECONDS)
    GeckoConfig.PING_FREQUENCY_IN_SECONDS, GeckoConfig.PING_DEVICE_NOT_RESPONDING_TIMEOUT_IN_SECONDS = 0.4, 1.0
    try:
        with patched_time(env.loop):
            events = []

            async def ev(e, **k):
                events.append((e, env.loop.time()))
            spa = GeckoAsyncSpa(CLI_ID, GeckoAsyncSpaDescriptor(SRC_ID, "spa", DEST), None, ev)
            spa._protocol = env.proto
            spa.pack_type, spa.config_version, spa.log_version = 10, 9, 9
            spa._is_connected = True
            answered = 1 + sx.choice("pings_answered", 2)
            pongs = []

            def on_send(data):
                v = _verb(data)
                if v == b"APING" and len(pongs) < answered:
                    pongs.append(env.loop.time())
                    env.loop.call_later(0.01, env.proto.datagram_received, b"APING\x00", PARMS)
            env.on_send = on_send
            when = [1.0, 1.8, 2.6, 3.4][sx.choice("command_at", 4)]

            async def main():
                t = asyncio.ensure_future(spa._ping_loop())
                await asyncio.sleep(when)
                await spa.async_press(1)
                t.cancel()
            env.loop.run_until_complete(main(), max_time=60.0)
            spacks = [t for (d, a, t) in env.tr.sent if _verb(d) == b"SPACK"]
            last_pong = max(pongs) + 0.01
            silent_for = when - last_pong
            sx.observe("spacks", len(spacks))
            if silent_for > 2 * 0.4 + 0.2:
                sx.check(not spacks, "gate.no-command-after-the-spa-fell-silent", lambda: f"SPACK at {spacks}, last pong {last_pong}")
    finally:
        GeckoConfig.PING_FREQUENCY_IN_SECONDS, GeckoConfig.PING_DEVICE_NOT_RESPONDING_TIMEOUT_IN_SECONDS = saved
        env.close()


def refresh_gate(sx):
    """the real refresh loop next to the real ping loop: while the spa is not connected, or has not answered a ping
    for twice the ping period, no STATU / CURCH query leaves; with an answering, connected spa the queries do leave"""
    import asyncio
    from sx.vloop import patched_time
    from geckolib.async_spa import GeckoAsyncSpa
    from geckolib.async_spa_descriptor import GeckoAsyncSpaDescriptor
    from geckolib.config import GeckoConfig
    from . import facade_env as fe
    env = Env()
    saved = (GeckoConfig.PING_FREQUENCY_IN_SECONDS, GeckoConfig.PING_DEVICE_NOT_RESPONDING_TIMEOUT_IN_SECONDS,
             GeckoConfig.SPA_PACK_REFRESH_FREQUENCY_IN_SECONDS)
    (GeckoConfig.PING_FREQUENCY_IN_SECONDS, GeckoConfig.PING_DEVICE_NOT_RESPONDING_TIMEOUT_IN_SECONDS,
     GeckoConfig.SPA_PACK_REFRESH_FREQUENCY_IN_SECONDS) = 0.4, 1.0, 1.5
    try:
        with patched_time(env.loop):
            async def ev(e, **k):
                pass
            spa = GeckoAsyncSpa(CLI_ID, GeckoAsyncSpaDescriptor(SRC_ID, "spa", DEST), None, ev)
            spa._protocol = env.proto
            P, C, L = fe.tables("inxm", 9, 9)
            spa.pack_type, spa.config_version, spa.log_version = 10, 9, 9
            spa.log_class = L(spa.struct)
            connected = bool(sx.choice("connected", 2))
            answering = bool(sx.choice("spa_answers_pings", 2))
            spa._is_connected = connected
            spa._last_ping = env.loop.time()

            def on_send(data):
                v = _verb(data)
                if v == b"APING" and answering:
                    env.loop.call_later(0.01, env.proto.datagram_received, b"APING\x00", PARMS)
            env.on_send = on_send

            async def main():
                ts = [asyncio.ensure_future(spa._ping_loop()), asyncio.ensure_future(spa._refresh_loop())]
                await asyncio.sleep(2.0)          # one refresh period has elapsed, 1.5 s in
                for t in ts:
                    t.cancel()
            env.loop.run_until_complete(main(), max_time=60.0)
            queries = [(_verb(d), t) for (d, a, t) in env.tr.sent if _verb(d) in (b"STATU", b"CURCH")]
            sx.observe("queries", len(queries))
            if connected and answering:
                sx.check(bool(queries), "gate.refresh-runs-when-connected-and-answering")
            else:
                sx.check(not queries, "gate.no-refresh-query-when-not-connected-or-not-pinging",
                         lambda: f"connected={connected} answering={answering}: {queries}")
    finally:
        (GeckoConfig.PING_FREQUENCY_IN_SECONDS, GeckoConfig.PING_DEVICE_NOT_RESPONDING_TIMEOUT_IN_SECONDS,
         GeckoConfig.SPA_PACK_REFRESH_FREQUENCY_IN_SECONDS) = saved
        env.close()


def zero_pause(sx):
    """PAUSE_BETWEEN_RETRIES configured as 0 (a value of the mutable configuration): every caller still completes
    within retry-count x timeout"""
    import asyncio
    from sx.vloop import patched_time
    from geckolib.config import GeckoConfig
    from geckolib.driver import GeckoVersionProtocolHandler
    env = Env()
    GeckoConfig.PAUSE_BETWEEN_RETRIES_IN_SECONDS = [0, 0.0][sx.choice("zero_kind", 2)]
    try:
        with patched_time(env.loop):
            R = 1 + sx.choice("retry_count", 3)
            callers = 1 + sx.choice("callers", 2)

            def mk():
                return env.proto.get(lambda: GeckoVersionProtocolHandler.request(
                    env.proto.get_and_increment_sequence_counter(False), parms=PARMS), None, R)

            async def main():
                return await asyncio.wait([asyncio.ensure_future(mk()) for _ in range(callers)], timeout=50.0)
            done, pending = env.loop.run_until_complete(main(), max_time=100.0)
            sx.check(not pending, "req.all-callers-complete-with-a-zero-pause", lambda: f"{len(pending)} pending")
            sx.check(env.loop.time() <= callers * R * (TIMEOUT + POLL) + 1e-9, "req.finishes-within-retry-count-x-timeout-plus-pause",
                     lambda: str(env.loop.time()))
            sx.check(len(env.tr.sent) == callers * R, "req.all-attempts-used-before-giving-up")
    finally:
        env.close()


def two_connections(sx):
    """two connections in one process: a datagram received on one never answers a request waiting on the other"""
    from sx.vloop import patched_time, FakeDatagramTransport
    from geckolib.driver import GeckoAsyncUdpProtocol, GeckoVersionProtocolHandler
    env = Env()
    try:
        with patched_time(env.loop):
            other = GeckoAsyncUdpProtocol(None, DEST)
            other.connection_made(FakeDatagramTransport(env.loop, other, lambda tr, d, a: None))
            # the request waits on `env.proto`; the matching reply arrives on which connection?
            on_other = bool(sx.choice("reply_arrives_on_the_other_connection", 2))
            when = [0.05, 0.15][sx.choice("when", 2)]
            target = other if on_other else env.proto
            env.on_send = lambda data: env.loop.call_later(when, target.datagram_received, KINDS[0][2], PARMS) \
                if len(env.tr.sent) == 1 else None
            res = env.loop.run_until_complete(env.proto.get(
                lambda: GeckoVersionProtocolHandler.request(env.proto.get_and_increment_sequence_counter(False), parms=PARMS),
                None, 1), max_time=100.0)
            sx.check((res is None) == on_other, "req.reply-on-another-connection-is-not-ours",
                     lambda: f"on_other={on_other} result={res}")
            sx.check(other.queue.qsize() == (1 if on_other else 0), "req.other-connection-keeps-its-own-datagram")
    finally:
        env.close()


def gates(sx):
    import time
    from sx.vloop import patched_time
    from geckolib.async_spa import GeckoAsyncSpa
    from geckolib.async_spa_descriptor import GeckoAsyncSpaDescriptor
    from geckolib.config import GeckoConfig
    env = Env()
    restore_mode = []
    try:
        with patched_time(env.loop):
            events = []

            async def ev(e, **k):
                events.append(e)
            spa = GeckoAsyncSpa(CLI_ID, GeckoAsyncSpaDescriptor(SRC_ID, "spa", DEST), None, ev)
            spa._protocol = env.proto
            spa.pack_type, spa.config_version, spa.log_version = 10, 9, 9
            connected = bool(sx.choice("connected", 2))
            spa._is_connected = connected
            env.loop._time = 1000.0
            # either timing table: the window is twice the ping frequency of the table in force
            active = bool(sx.choice("active_config_mode", 2))
            import geckolib.config as gc
            gc.ConfigChange = env.loop.create_future()
            gc.set_config_mode(active)
            restore_mode.append(True)
            window = 2 * (gc._GeckoActiveConfig if active else gc._GeckoIdleConfig).PING_FREQUENCY_IN_SECONDS
            age = sx.real_("ping_age", 0, 500)
            spa._last_ping = env.loop.time() - age
            replies = {b"SPACK": b"PACKS", b"GETWC": b"WCGET\x01", b"SETWC": b"WCSET", b"REQRM": b"RMREQ"}

            def on_send(data):
                env.loop.call_later(0.01, env.proto.datagram_received, replies[_verb(data)], PARMS)
            env.on_send = on_send
            cmds = [("press", lambda: spa.async_press(1), b"SPACK"),
                    ("set_value", lambda: spa._on_async_set_value(100, 1, 5), b"SPACK"),
                    ("get_watercare", lambda: spa.async_get_watercare(), b"GETWC"),
                    ("set_watercare", lambda: spa.async_set_watercare(2), b"SETWC"),
                    ("get_reminders", lambda: spa.async_get_reminders(), b"REQRM")]
            name, mk, verb = cmds[sx.choice("command", len(cmds))]
            env.loop.run_until_complete(mk(), max_time=2000.0)
            sent = env.tr.sent
            sx.observe("sent", len(sent))
            fresh = age < window
            allowed = connected and bool(fresh)
            if not allowed:
                sx.check(len(sent) == 0, f"gate.nothing-sent-when-not-connected-or-not-pinging.{name}",
                         lambda: f"connected={connected} age={age}")
            else:
                sx.check(len(sent) == 1 and _verb(sent[0][0]) == verb, f"gate.exactly-the-request-when-open.{name}")
    finally:
        if restore_mode:
            import geckolib.config as gc
            gc.ConfigChange = env.loop.create_future()
            gc.set_config_mode(False)
        env.close()


def call_sites(sx):
    """the library's own callers of the request engine (key press, set value, watercare, reminders): the first k replies
    are lost, or another caller holds the connection for longer than the protocol timeout first - every transmission is
    a freshly built request (next sequence number of its kind), the call succeeds on the first delivered reply and
    nothing is sent after it"""
    from sx.vloop import patched_time
    from geckolib.async_spa import GeckoAsyncSpa
    from geckolib.async_spa_descriptor import GeckoAsyncSpaDescriptor
    from geckolib.driver import GeckoVersionProtocolHandler
    from geckolib.spa_events import GeckoSpaEvent
    env = Env()
    try:
        with patched_time(env.loop):
            events = []

            async def ev(e, **k):
                events.append(e)
            spa = GeckoAsyncSpa(CLI_ID, GeckoAsyncSpaDescriptor(SRC_ID, "spa", DEST), None, ev)
            spa._protocol = env.proto
            spa.pack_type, spa.config_version, spa.log_version = 10, 9, 9
            spa._is_connected = True
            env.loop._time = 1000.0
            env.proto._sequence_counter_protocol = sx.int_("protocol_counter", 0, 191)
            env.proto._sequence_counter_command = sx.int_("command_counter", 191, 255)
            replies = {b"SPACK": b"PACKS", b"GETWC": b"WCGET\x01", b"SETWC": b"WCSET", b"REQRM": b"RMREQ"}
            lost = sx.choice("replies_lost", 3)
            busy = bool(sx.choice("connection_busy_first", 2))
            mine = []

            def on_send(data):
                v = _verb(data)
                if v == b"AVERS":
                    return              # the other caller's request is never answered
                mine.append(data)
                spa._last_ping = env.loop.time()
                if len(mine) > lost:
                    env.loop.call_later(0.01, env.proto.datagram_received, replies[v], PARMS)
            env.on_send = on_send
            cmds = [("press", lambda: spa.async_press(1), b"SPACK", True),
                    ("set_value", lambda: spa._on_async_set_value(100, 1, 5), b"SPACK", True),
                    ("get_watercare", lambda: spa.async_get_watercare(), b"GETWC", False),
                    ("set_watercare", lambda: spa.async_set_watercare(2), b"SETWC", False),
                    ("get_reminders", lambda: spa.async_get_reminders(), b"REQRM", False)]
            name, mk, verb, is_cmd = cmds[sx.choice("command", len(cmds))]
            spa._last_ping = env.loop.time()
            if busy:
                # an unanswered two-attempt request of another caller occupies the connection for 2 x (T + pause) > T
                env.loop.create_task(env.proto.get(
                    lambda: GeckoVersionProtocolHandler.request(env.proto.get_and_increment_sequence_counter(False), parms=PARMS),
                    None, 2))
                env.loop.run_until(lambda: len(env.tr.sent) >= 1, max_time=1005.0)
            env.loop.run_until_complete(mk(), max_time=2000.0)
            off = content_offset(CLI_ID, SRC_ID)
            seqs = [d[off + 5] for d in mine]
            sx.observe("seqs", seqs)
            sx.check(len(mine) == lost + 1 and all(_verb(d) == verb for d in mine),
                     f"req.site.transmissions-stop-at-the-first-delivered-reply.{name}", lambda: f"{len(mine)} for {lost} lost")
            lo, hi = (192, 255) if is_cmd else (1, 191)
            from sx.core import And, Ite
            ok = And(*[(q_ >= lo) & (q_ <= hi) for q_ in seqs], *[b == Ite(a < hi, a + 1, lo) for a, b in zip(seqs, seqs[1:])])
            sx.check(ok, f"req.site.each-attempt-freshly-built.{name}", lambda: str(seqs))
            sx.check(GeckoSpaEvent.ERROR_PROTOCOL_RETRY_COUNT_EXCEEDED not in events,
                     f"req.site.succeeds-when-a-reply-was-delivered.{name}", lambda: str(events))
    finally:
        env.close()


def units(tier):
    q = tier == "quick"
    R = 2 if q else 4
    for first in range(2):
        yield Unit(f"single.replies.first{first}", single_caller(R, False), presets={"attempt0_poll0": first}, max_paths=100000)
    for first in range(3):
        yield Unit(f"single.foreign.first{first}", single_caller(2 if q else 3, True), presets={"attempt0_poll0": first},
                   max_paths=200000)
    yield Unit("callers", many_callers(2 if q else 3), max_paths=100000)
    yield Unit("gates", gates)
    yield Unit("abnormal-holder", abnormal_holder)
    yield Unit("ping-gate", ping_gate)
    yield Unit("call-sites", call_sites)
    yield Unit("refresh-gate", refresh_gate)
    yield Unit("two-connections", two_connections)
    yield Unit("zero-pause", zero_pause)
