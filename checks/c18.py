"""C18 - pack tables are well-formed, consistent, and published layouts never change.

Behavioural equivalence of every shipped item (the real accessor object built by
the current table and current accessor code) with an independent reference
decoder/encoder built from the layout pinned at the audited commit
(pinned/layout.json.gz), on a symbolic block, symbolic position and symbolic
value.  Items whose declared attributes differ from the pinned record are
compared individually at their concrete positions, so a changed position, width,
bit position, label, mask or RW flag yields a concrete block on which the two
decode differently; representation-only changes do not alarm.
"""
from __future__ import annotations

import copy
import gzip
import importlib
import json
import math
import os
import sys

from .common import Unit, PACKS_DIR, apply_write, drive
from . import refmodel, c02

sys.path.insert(0, os.path.join(os.path.dirname(os.path.dirname(os.path.abspath(__file__))), "tools"))
import pin_layout  # noqa: E402

PROPERTY = "C18"
FUNCTIONS = ["all 164 pack table modules (declared layout extracted from source by ast, objects built by the real "
             "constructors)", "GeckoStructAccessor.__init__/_get_value/_get_raw_value/_set_value",
             "GeckoStructure.build_accessors key lists"]
BOUNDS = {"data": "none: symbolic position, block and value per pinned record shape; every item is mapped to its "
                  "shape by comparing its declared attributes with the pinned record",
          "pinned layout": "pinned/layout.json.gz generated at commit 236b7b1 (the audited commit); new modules allowed, "
                           "pinned modules and items immutable"}
ASSUMPTIONS = [
    "reference model (checks/refmodel.py + the width rule ceil(log2(MaxItems))) is independent of accessor.py",
    "auxiliary side conditions are finite concrete comparisons (no solver): module attributes, key lists name items, "
    "file name vs declared version; the FILES naming round trip (every platform x cfg x log through the real "
    "response()/handle() and the module-name derivation) is a concrete loop shared with C04",
    "temperature items: the raw word is compared here, the value formula is decided by C14",
]
SITES = ["eq.*", "mod.*", "adr.*", "key.*", "rt.files*"]

PINNED = os.path.join(os.path.dirname(os.path.dirname(os.path.abspath(__file__))), "pinned", "layout.json.gz")
_P = None
_CUR = None


def pinned():
    global _P
    if _P is None:
        with gzip.open(PINNED, "rt") as f:
            _P = json.load(f)
    return _P


def current_declared():
    global _CUR
    if _CUR is None:
        _CUR = pin_layout.packs_layout(PACKS_DIR)
    return _CUR


def model_of(prec):
    """reference model record from a pinned declaration"""
    cls = prec["cls"]
    size = 2 if cls in ("Word", "Time", "Temp") else (prec.get("size") or 1)
    bitpos = prec.get("bitpos")
    mask = None
    if bitpos is not None:
        mi = prec.get("maxitems")
        width = 1 if (cls == "Bool" or not mi) else max(1, math.ceil(math.log2(max(int(mi), 2))))
        mask = (1 << width) - 1
    typ = {"Temp": "Word"}.get(cls, cls)
    return {"cls": cls, "type": typ, "pos": prec["pos"], "size": size, "bitpos": bitpos, "mask": mask,
            "labels": prec.get("items"), "rw": prec.get("rw") is not None}


def shape_key(prec):
    return json.dumps([prec["cls"], prec.get("bitpos"), prec.get("items"), prec.get("size"), prec.get("maxitems"),
                       prec.get("rw") is not None])


class _S:
    status_block = b"\x00" * 1024
    accessors = {}


_ACC = {}


def live_accessors(mod):
    """accessor objects of a current module, built by the real constructors"""
    if mod not in _ACC:
        m = importlib.import_module(f"geckolib.driver.packs.{mod}")
        cls = getattr(m, "GeckoConfigStruct", None) or getattr(m, "GeckoLogStruct", None)
        _ACC[mod] = cls(_S()).accessors if cls else {}
    return _ACC[mod]


def _same_decl(a, b):
    keys = ("cls", "pos", "bitpos", "items", "size", "maxitems")
    return all(a.get(k) == b.get(k) for k in keys) and (a.get("rw") is None) == (b.get("rw") is None)


_GROUPS = None


def groups():
    """pinned shape -> (module, tag) of a current item whose declaration equals the pinned one"""
    global _GROUPS
    if _GROUPS is None:
        g = {}
        cur = current_declared()
        for mod, classes in sorted(pinned().items()):
            for cname, c in classes.items():
                for tag, prec in c.get("items", {}).items():
                    crec = cur.get(mod, {}).get(cname, {}).get("items", {}).get(tag)
                    if crec is not None and _same_decl(crec, prec):
                        g.setdefault(shape_key(prec), (mod, tag, prec))
        _GROUPS = g
    return _GROUPS


def compare(sx, acc, rec, pos_acc, pos_ref, pre):
    """real accessor `acc` (at pos_acc) against the reference model `rec` (at pos_ref)"""
    from geckolib.driver import GeckoStructure
    from sx.loader import STRUCT_SHIM
    tag_ = "" if pre == "eq" else "_" + pre.split(".", 1)[-1]
    blk = sx.block("block" + tag_, 1024)
    writes = []
    st = GeckoStructure(lambda p, n, v: writes.append((p, n, v)))
    st.set_status_block(blk)
    acc = copy.copy(acc)
    acc._observers = []
    acc.struct = st
    acc.pos = pos_acc
    # ---- read (mode 0) / write (mode 1) are explored on separate paths
    mode = sx.choice("mode" + tag_, 2)
    rraw = refmodel.raw(rec, blk, pos_ref)
    if mode == 1:
        pass
    elif rec["cls"] == "Temp":
        sx.check(acc._get_raw_value(blk) == rraw, f"{pre}.read")
    else:
        got = acc._get_value(blk)
        sx.observe("read", got)
        if rec["type"] == "Enum":
            sx.check(refmodel.enum_class(rec, rraw) == _cls(rec, got), f"{pre}.read", lambda: f"{got!r}")
        elif rec["type"] == "Bool":
            sx.check(got == (rraw == 1), f"{pre}.read")
        elif rec["type"] == "Time":
            from .c03 import _time
            sx.check(got == _time(sx, rraw), f"{pre}.read")
        else:
            sx.check(got == rraw, f"{pre}.read")
    if mode == 0:
        return
    # ---- write permission
    rw_now = acc.read_write is not None
    sx.check(rw_now == rec["rw"], f"{pre}.writability")
    if not rw_now:
        return
    if rec["cls"] == "Temp":
        return      # encoding of temperatures: C14
    # ---- write
    a_like = type("A", (), {"type": rec["type"], "items": rec["labels"], "bitpos": rec["bitpos"]})()
    v, _ = c02._values(sx, a_like, tag_.lstrip('_') + ('.' if tag_ else ''))
    try:
        acc._set_value(v)
    except ValueError:
        sx.check(False, f"{pre}.write-accepts-label", lambda: f"{v!r}")
        return
    sx.check(len(writes) == 1, f"{pre}.write-emitted")
    p, n, nv = writes[0]
    sx.observe("write", (p, n, nv))
    if rec["type"] == "Enum":
        idx = rec["labels"].index(v)
    elif rec["type"] == "Bool":
        idx = 1 if (v is True or (isinstance(v, str) and v.lower() == "true")) else 0
    elif rec["type"] == "Time":
        h, m = (v.parts[0][0], v.parts[2][0]) if hasattr(v, "parts") else (int(v[:v.index(":")]), int(v[v.index(":") + 1:]))
        idx = h * 256 + m % 256
    else:
        idx = c02.sx_int_of(v) if not isinstance(v, int) and not hasattr(v, "lo") else v
    old = refmodel.field(rec, blk, pos_ref)
    if rec["bitpos"] is not None:
        ref_nv = (old & ~(rec["mask"] << rec["bitpos"])) | ((idx & rec["mask"]) << rec["bitpos"])
    else:
        ref_nv = idx
    sx.check((p == pos_ref) & (n == rec["size"]), f"{pre}.write-address")
    sx.check(nv == ref_nv, f"{pre}.write-value", lambda: f"{nv} vs {ref_nv}")


def _cls(rec, label):
    cls, unknown = refmodel.label_class(rec)
    labels = rec["labels"]
    if label in labels:
        return cls[labels.index(label)]
    return unknown if label == "Unknown" else -1


def equiv(mod, tag, prec):
    def scenario(sx):
        rec = model_of(prec)
        acc = live_accessors(mod)[tag]
        pos = sx.int_("pos", 0, 1024 - rec["size"])
        compare(sx, acc, rec, pos, pos, "eq")
    return scenario


def module_unit(mod):
    def scenario(sx):
        pin = pinned().get(mod)
        cur = current_declared().get(mod)
        if pin is not None:
            sx.check(cur is not None, "mod.pinned-module-still-exists", mod)
            if cur is None:
                return
            for cname, pc in pin.items():
                cc = cur.get(cname)
                sx.check(cc is not None, f"mod.class.{cname}")
                if cc is None:
                    continue
                for k in ("name", "type", "revision", "version", "begin", "end", "output_keys", "all_device_keys",
                          "user_demand_keys", "error_keys"):
                    if k in pc:
                        sx.check(cc.get(k) == pc[k], f"mod.attr.{k}", lambda: f"{mod}.{k}: {cc.get(k)!r} != {pc[k]!r}")
                live = live_accessors(mod) if "items" in pc else {}
                for tag, prec in pc.get("items", {}).items():
                    crec = cc.get("items", {}).get(tag)
                    sx.check(crec is not None and tag in live, f"mod.item-exists.{tag}")
                    if crec is None or tag not in live:
                        continue
                    if _same_decl(crec, prec):
                        sx.check(shape_key(prec) in groups(), "mod.item-in-proved-shape")
                        continue
                    # declaration differs from the pinned one: behavioural comparison at the concrete positions
                    rec = model_of(prec)
                    if not (0 <= rec["pos"] and rec["pos"] + rec["size"] <= 1024 and live[tag].pos + live[tag].length <= 1024):
                        sx.check(crec.get("pos") == prec.get("pos"), f"item.{tag}.position")
                        continue
                    compare(sx, live[tag], rec, live[tag].pos, rec["pos"], f"item.{tag}")
        if cur is None:
            return
        # ---- well-formedness of every current item
        n = 0
        for cname, cc in cur.items():
            items = cc.get("items", {})
            for tag, crec in items.items():
                n += 1
                rec = model_of(crec)
                if not (0 <= rec["pos"] and rec["pos"] + rec["size"] <= 1024):
                    sx.check(False, f"adr.bytes-inside-block.{tag}", f"{mod}.{tag} pos {rec['pos']}")
                if rec["bitpos"] is not None:
                    width = rec["mask"].bit_length()
                    if not (0 <= rec["bitpos"] and rec["bitpos"] + width <= 8 * rec["size"]):
                        sx.check(False, f"adr.bits-inside-field.{tag}")
                if rec["labels"] is not None:
                    cap = (rec["mask"] + 1) if rec["bitpos"] is not None else 256 ** rec["size"]
                    if len(rec["labels"]) > cap:
                        sx.check(False, f"adr.labels-representable.{tag}", f"{len(rec['labels'])} labels, capacity {cap}")
            for k in ("output_keys", "user_demand_keys", "error_keys"):
                for key in cc.get(k, []):
                    if k == "output_keys":
                        ok = key in items
                    else:
                        # user demands / error keys live in the log struct itself
                        ok = key in items
                    if not ok:
                        sx.check(False, f"key.{k}.{key}", f"{mod}: {key} names no item")
            if "version" in cc and ("-cfg-" in mod or "-log-" in mod):
                sx.check(int(mod.rsplit("-", 1)[1]) == cc["version"], "mod.filename-matches-version")
                plat = mod.rsplit("-", 2)[0]
                sx.check(plat in current_declared(), "mod.platform-module-exists")
            if cname == "GeckoPack":
                sx.check(cc.get("name", "").lower() == mod, "mod.filename-matches-platform-name",
                         lambda: f"{cc.get('name')} vs {mod}")
        sx.observe("items", n)
        sx.check(True, "adr.checked")
        sx.check(True, "key.checked")
    return scenario


def connect_twice(sx):
    """the client's real connection handshake maps the reported config-file naming to table modules: two spas of
    different platforms that report the same version numbers, connected one after the other in one process, each get
    their own platform's tables"""
    from sx.vloop import VLoop, patched_time
    from geckolib.async_spa import GeckoAsyncSpa
    from geckolib.async_spa_descriptor import GeckoAsyncSpaDescriptor
    from geckolib.utils.simulator import GeckoSimulator
    from geckolib.utils.shared_command import GeckoCmd
    from geckolib.config import GeckoConfig
    from .common import SRC_ID, CLI_ID, DEST, combos
    from .c01 import _serve
    from . import facade_env as fe
    GeckoCmd._init_logging = lambda self: None
    # two platforms sharing a (cfg, log) pair of version numbers
    by = {}
    need = {"PackType", "PackConfID", "PackConfRev", "PackConfRel", "ConfigNumber"}
    dd = current_declared()
    for p, c, l in combos():
        keys = set(dd[f"{p}-cfg-{c}"]["GeckoConfigStruct"]["items"]) | set(dd[f"{p}-log-{l}"]["GeckoLogStruct"]["items"])
        if need <= keys:          # (tables without the identification items cannot complete a handshake at all)
            by.setdefault((c, l), []).append(p)
    shared = sorted((k, v) for k, v in by.items() if len(set(v)) >= 2)
    sx.check(bool(shared), "mod.two-platforms-share-version-numbers")
    (c, l), plats = shared[sx.choice("pair", min(len(shared), 3))]
    plats = sorted(set(plats))[:2]
    if sx.choice("order", 2):
        plats.reverse()
    decl = current_declared()
    saved = GeckoConfig.PROTOCOL_TIMEOUT_IN_SECONDS
    GeckoConfig.PROTOCOL_TIMEOUT_IN_SECONDS = 0.25
    try:
        for plat in plats:
            name = decl[plat]["GeckoPack"]["name"]

            class Snap:
                packtype = "MrSt" if name == "MrSteam" else name
                config_version, log_version = c, l
                intouch_EN, intouch_CO = (88, 15, 0), (89, 11, 0)
                bytes = bytes(1024)
            sim = GeckoSimulator()
            sim.snapshot = Snap()
            loop = VLoop()
            PARMS = (DEST[0], DEST[1], SRC_ID, CLI_ID)

            def on_endpoint(tr, proto, kw, sim=sim, loop=loop):
                def on_send(tr_, data, addr):
                    for content in _serve(sim, data):
                        loop.call_later(0.01, proto.datagram_received, content, PARMS)
                tr.on_send = on_send
            loop.on_endpoint = on_endpoint
            events = []

            async def ev(e, **k):
                events.append(e)
            spa = GeckoAsyncSpa(CLI_ID, GeckoAsyncSpaDescriptor(SRC_ID, "spa", DEST), fe.TaskMan(), ev)
            with patched_time(loop):
                loop.run_until_complete(spa.connect(), max_time=120.0)
            loop.cancel_all()
            sx.check(spa.is_connected, "mod.handshake-completes", lambda: f"{plat} {c}/{l}: {[e.name for e in events][-3:]}")
            if spa.is_connected:
                cm, lm = type(spa.config_class).__module__, type(spa.log_class).__module__
                sx.check(cm == f"geckolib.driver.packs.{plat}-cfg-{c}" and lm == f"geckolib.driver.packs.{plat}-log-{l}",
                         "mod.connection-loads-the-reported-platforms-tables", lambda: f"{plat}: {cm} / {lm}")
                sx.check(spa.pack_class.name == name, "mod.connection-loads-the-reported-pack")
                # every item the two tables publish is there to be read after the connection
                want = set(decl[f"{plat}-cfg-{c}"]["GeckoConfigStruct"]["items"]) | set(decl[f"{plat}-log-{l}"]["GeckoLogStruct"]["items"])
                sx.check(set(spa.struct.accessors) == want, "mod.connection-exposes-every-published-item",
                         lambda: f"{plat}: {len(spa.struct.accessors)} of {len(want)} items")
    finally:
        GeckoConfig.PROTOCOL_TIMEOUT_IN_SECONDS = saved


def reported_naming_loads_modules(sx):
    """both clients map the config-file naming a spa reports (platform, config version, log version - the two
    versions different wherever the platform ships such a pair) to the table modules that declare exactly them"""
    import geckolib.driver.protocol as P
    from geckolib.spa import GeckoSpa
    from .common import SRC_ID, CLI_ID, DEST
    from .c16 import _Desc
    PARMS = (DEST[0], DEST[1], SRC_ID, CLI_ID)
    decl = current_declared()
    import re as _re

    def versions(plat, kind):
        return sorted(int(m.group(1)) for m in (_re.fullmatch(_re.escape(plat) + f"-{kind}-(\\d+)", k) for k in decl) if m)
    plats = [p_ for p_ in sorted(platforms_of(decl)) if versions(p_, "cfg") and versions(p_, "log")]
    plat = plats[sx.choice("platform", len(plats))]
    cfgs, logs = versions(plat, "cfg"), versions(plat, "log")
    pairs = [(c, l) for c in (cfgs[0], cfgs[-1]) for l in (logs[0], logs[-1])]
    c, l = pairs[sx.choice("versions", len(pairs))]
    name = decl[plat]["GeckoPack"]["name"]
    reported = "MrSt" if name == "MrSteam" else name
    content = P.GeckoConfigFileProtocolHandler.response(reported, c, l, parms=PARMS)._content
    h = P.GeckoConfigFileProtocolHandler()
    h.handle(content, PARMS)
    spa = GeckoSpa(_Desc())
    asked = []
    spa.struct.retry_request = lambda *a: asked.append(a)
    spa._on_config_received(h, PARMS)
    cm, lm = type(spa.new_config_class).__module__, type(spa.new_log_class).__module__
    sx.check(cm == f"geckolib.driver.packs.{plat}-cfg-{c}" and lm == f"geckolib.driver.packs.{plat}-log-{l}",
             "mod.threaded-client-loads-the-reported-modules", lambda: f"{plat} {c}/{l}: {cm} / {lm}")
    sx.check(spa.new_config_class.version == c and spa.new_log_class.version == l and len(asked) == 1,
             "mod.threaded-client-versions")


def platforms_of(decl):
    return {m for m in decl if "-cfg-" not in m and "-log-" not in m}


def units(tier):
    yield Unit("connect-twice", connect_twice, validate=False)
    yield Unit("reported-naming", reported_naming_loads_modules, validate=False)
    for key, (mod, tag, prec) in sorted(groups().items(), key=lambda kv: (kv[1][0], kv[1][1])):
        yield Unit(f"equiv.{mod}.{tag}", equiv(mod, tag, prec), max_paths=20000, ratio_floats=True)
    from . import c04
    # module names vs the config-file naming a spa reports: FILES round trip for all shipped combinations
    yield Unit("files-naming", c04.m_files)
    mods = sorted(set(pinned()) | set(current_declared()))
    for mod in mods:
        yield Unit(f"module.{mod}", module_unit(mod), ratio_floats=True)
