"""C02 - pack-table items: write-then-read returns the value, no other bit changes.

Every distinct item signature of the shipped cfg/log tables is proved once with a
symbolic position, a symbolic 1024-byte block and a symbolic value, through the
real _set_value / async_set_value / _get_value of the *shipped accessor object*
(copied from the table), delegating through the real structure classes.  Every
item is then mapped to its signature and its concrete position checked.
"""
from __future__ import annotations

import copy
import importlib
import math

from .common import Unit, pack_modules, apply_write, drive

PROPERTY = "C02"
FUNCTIONS = [
    "GeckoStructAccessor._set_value", "GeckoStructAccessor.async_set_value", "GeckoStructAccessor._get_value",
    "GeckoStructAccessor._get_raw_value", "GeckoStructAccessor.__init__ (at table import)",
    "GeckoTempStructAccessor._set_value/async_set_value/_get_value",
    "GeckoStructure.set_value", "GeckoAsyncStructure.async_set_value", "all 151 cfg/log table modules",
]
BOUNDS = {"data": "none: all positions 0..1024-len, all block contents, all labels / booleans / 0..255 / 0..65535 / "
                  "hh:mm with h,m in 0..255, decimal string forms of numbers",
          "temperature values": "every stored word 0..65535 in both units: the value read, written back through either write "
                                "path, stores the same word (IEEE-754 doubles, z3 FP theory); decimal inputs are C14's",
          "thorough": "additionally, for every pair of items of one table whose bytes overlap (grouped by the two signatures "
                      "and their relative position): writing one leaves the other's decoded raw value unchanged"}
ASSUMPTIONS = [
    "reference device model: a set-value (pos,len,v) stores v big-endian at block[pos:pos+len]",
    "independent field-width rule: bit-positioned enum = ceil(log2(max(MaxItems,2))) bits, bool = 1 bit, "
    "otherwise the whole 1- or 2-byte field",
    "items sharing a signature (class, type, width, bit position, labels, MaxItems, mask, RW) behave identically "
    "up to position; the position itself is symbolic",
]
SITES = ["rt.*", "ro.*", "pos.*", "enc.*"]


class _S:
    status_block = b"\x00" * 1024
    accessors = {}


_SIGS = None


def signatures():
    """{sig: [(module, tag, pos), ...]} and a representative accessor per signature."""
    global _SIGS
    if _SIGS is not None:
        return _SIGS
    sigs, reps = {}, {}
    for plat, kind, ver, mod in pack_modules():
        m = importlib.import_module(mod)
        cls = m.GeckoConfigStruct if kind == "cfg" else m.GeckoLogStruct
        for tag, a in cls(_S()).accessors.items():
            sig = (type(a).__name__, a.type, a.bitpos, tuple(a.items) if a.items is not None else None, a.length,
                   a.format, a.maxitems, getattr(a, "bitmask", None), a.read_write)
            sigs.setdefault(sig, []).append((mod.rsplit(".", 1)[1], tag, a.pos))
            reps.setdefault(sig, a)
    _SIGS = (sigs, reps)
    return _SIGS


def sig_name(sig, members):
    mod, tag, _ = min(members)
    return f"sig.{mod}.{tag}"


def field_mask(a):
    """Independent rule for the bits an item owns inside its 1/2-byte field."""
    if a.bitpos is None:
        return (1 << (8 * a.length)) - 1
    if a.type == "Bool":
        width = 1
    else:
        width = max(1, math.ceil(math.log2(max(a.maxitems or 2, 2))))
    return ((1 << width) - 1) << a.bitpos


def _values(sx, a, pfx=""):
    """(value handed to the setter, value expected on read-back)."""
    from sx.core import SymFmt
    if a.type == "Enum":
        li = sx.choice(pfx + "label", len(a.items))
        return a.items[li], a.items[li]
    if a.type == "Bool":
        forms = [True, False, "true", "false", "True", "FALSE"]
        f = forms[sx.choice(pfx + "bool_form", len(forms))]
        return f, (f is True or (isinstance(f, str) and f.lower() == "true"))
    if a.type in ("Byte", "Word"):
        v = sx.int_(pfx + "value", 0, 255 if a.type == "Byte" else 65535)
        if sx.choice(pfx + "as_string", 2):
            if sx.symbolic:
                return SymFmt([(v, "")]), v
            return str(v), v
        return v, v
    if a.type == "Time":
        h = sx.int_(pfx + "hour", 0, 255)
        m = sx.int_(pfx + "minute", 0, 255)
        if sx.symbolic:
            s = SymFmt([(h, "02"), ":", (m, "02")])
        else:
            s = f"{h:02}:{m:02}"
        return s, s
    raise AssertionError(a.type)


def sx_int_of(v):
    return v.to_int() if hasattr(v, "to_int") else int(v)


def roundtrip(sig):
    def scenario(sx):
        from geckolib.driver import GeckoStructure, GeckoAsyncStructure
        sigs, reps = signatures()
        a0 = reps[sig]
        blk = sx.block("block", 1024)
        pos = sx.int_("pos", 0, 1024 - a0.length)
        writes = []

        async def on_async(p, l, v):
            writes.append(("async", p, l, v))

        s1 = GeckoStructure(lambda p, l, v: writes.append(("sync", p, l, v)))
        s2 = GeckoAsyncStructure(None, on_async)
        s1.set_status_block(blk)
        s2.set_status_block(blk)
        acc = copy.copy(a0)
        acc.pos = pos
        acc._observers = []
        acc.struct = s1
        acc2 = copy.copy(acc)
        acc2.struct = s2

        if a0.read_write is None:
            v, _ = _values(sx, a0)
            for who, fn in (("sync", lambda: acc._set_value(v)), ("async", lambda: drive(acc2.async_set_value(v)))):
                try:
                    fn()
                    raised = False
                except Exception as e:  # noqa
                    raised = "doesn't allow writing" in str(e)
                sx.check(raised, f"ro.refused.{who}")
            sx.check(not writes, "ro.no-device-write")
            # the simulator makes every item writable (set_read_write): the round trip must hold then too
            acc.set_read_write("ALL")
            acc2.set_read_write("ALL")
            expect = (v is True or (isinstance(v, str) and v.lower() == "true")) if a0.type == "Bool" else v
            if a0.type in ("Byte", "Word") and not isinstance(v, int) and not hasattr(v, "lo"):
                expect = sx_int_of(v)
        else:
            v, expect = _values(sx, a0)
        acc._set_value(v)
        drive(acc2.async_set_value(v))
        sx.check(len(writes) == 2 and writes[0][0] == "sync" and writes[1][0] == "async", "rt.one-write-per-path")
        _, p1, l1, n1 = writes[0]
        _, p2, l2, n2 = writes[1]
        sx.observe("write", (p1, l1, n1))
        sx.check((p1 == p2) & (l1 == l2) & (n1 == n2), "rt.sync-async-identical")
        sx.check((p1 == pos) & (l1 == a0.length), "rt.addresses-own-field")
        sx.check((n1 >= 0) & (n1 < (1 << (8 * a0.length))), "rt.value-fits-field")
        fmt = ">B" if a0.length == 1 else ">H"
        from sx.loader import STRUCT_SHIM
        old_field = STRUCT_SHIM.unpack(fmt, blk[pos:pos + a0.length])[0]
        fm = field_mask(a0)
        sx.check(((n1 ^ old_field) & ~fm) == 0, "rt.no-bit-outside-field")
        new_blk = apply_write(blk, pos, a0.length, n1)
        got = acc._get_value(new_blk)
        sx.observe("readback", got)
        sx.check(got == expect, "rt.reads-back", lambda: f"wrote {v!r} read {got!r}")
    return scenario


def temperature_ro(sig):
    """temperature items without write permission refuse writes on both paths (any unit setting), emit nothing"""
    def scenario(sx):
        from geckolib.driver import GeckoStructure, GeckoAsyncStructure
        from . import c03
        sigs, reps = signatures()
        a0 = reps[sig]
        blk = sx.bytes_("block", 16)
        writes = []

        async def on_async(p, l, v):
            writes.append(("async", p, l, v))
        t = [20.0, 98.5, "37", 0][sx.choice("temperature", 4)]
        for who, st in (("sync", GeckoStructure(lambda p, l, v: writes.append(("sync", p, l, v)))),
                        ("async", GeckoAsyncStructure(None, on_async))):
            st.set_status_block(blk)
            acc = copy.copy(a0)
            acc.pos, acc._observers, acc.struct = 6, [], st
            tu = copy.copy(c03._tempunits())
            tu.pos, tu._observers, tu.struct = 5, [], st
            st.accessors = {"item": acc, "TempUnits": tu}
            try:
                if who == "sync":
                    acc._set_value(t)
                else:
                    drive(acc.async_set_value(t))
                raised = False
            except Exception as e:  # noqa
                raised = "doesn't allow writing" in str(e)
            sx.check(raised, f"ro.refused.{who}")
        sx.check(not writes, "ro.no-device-write", lambda: str(writes))
    return scenario


def sequence(sig):
    """write, then the spa changes the sibling bits of the same field, then write again: the second device
    write must preserve the *current* sibling bits (nothing remembered from the first write)"""
    def scenario(sx):
        from geckolib.driver import GeckoStructure, GeckoAsyncStructure
        from sx.loader import STRUCT_SHIM
        sigs, reps = signatures()
        a0 = reps[sig]
        async_ = bool(sx.choice("async_path", 2))
        blk = sx.bytes_("block", 8)
        pos = 2
        writes = []

        async def on_async(p, l, v):
            writes.append((p, l, v))
        st = GeckoAsyncStructure(None, on_async) if async_ else GeckoStructure(lambda p, l, v: writes.append((p, l, v)))
        st.set_status_block(blk)
        acc = copy.copy(a0)
        acc.pos = pos
        acc._observers = []
        acc.struct = st
        acc.set_read_write("ALL")
        st.accessors = {"item": acc}
        fm = field_mask(a0)
        full = (1 << (8 * a0.length)) - 1
        fmt = ">B" if a0.length == 1 else ">H"

        def write(v):
            del writes[:]
            if async_:
                drive(acc.async_set_value(v))
            else:
                acc._set_value(v)
            return writes[0]
        v1, _ = _values(sx, a0, "first_")
        p1, l1, n1 = write(v1)
        st.replace_status_block_segment(p1, STRUCT_SHIM.pack(fmt, n1))       # the spa applies it and echoes
        # the spa (keypad, another client) now changes the other bits of the same field
        other = sx.int_("sibling_bits", 0, full)
        cur = STRUCT_SHIM.unpack(fmt, st.status_block[pos:pos + a0.length])[0]
        newfield = (cur & fm) | (other & ~fm & full)
        st.replace_status_block_segment(pos, STRUCT_SHIM.pack(fmt, newfield))
        v2, exp2 = _values(sx, a0, "second_")
        p2, l2, n2 = write(v2)
        sx.observe("second", (p2, l2, n2))
        sx.check(((n2 ^ newfield) & ~fm & full) == 0, "rt.second-write-keeps-current-sibling-bits",
                 lambda: f"field {newfield:#x} -> write {n2:#x}")
        st.replace_status_block_segment(p2, STRUCT_SHIM.pack(fmt, n2))
        sx.check(acc.value == exp2, "rt.second-write-reads-back")
    return scenario


def cross_table(tag, mods):
    """the same item name written through two different tables in one process: each write is encoded with
    its own table's labels"""
    def scenario(sx):
        from geckolib.driver import GeckoStructure
        import importlib
        outs = []
        for i, mod in enumerate(mods):
            m = importlib.import_module(f"geckolib.driver.packs.{mod}")
            cls = getattr(m, "GeckoConfigStruct", None) or m.GeckoLogStruct
            writes = []
            st = GeckoStructure(lambda p, l, v: writes.append((p, l, v)))
            a = cls(st).accessors[tag]
            a.set_read_write("ALL")
            li = sx.choice(f"label{i}", len(a.items))
            a._set_value(a.items[li])
            p, l, n = writes[0]
            idx = a.items.index(a.items[li])
            got = (n >> a.bitpos) & a.bitmask if a.bitpos is not None else n
            sx.check(got == idx, "rt.label-encoded-by-its-own-table", lambda: f"{mod}.{tag} {a.items[li]!r}: {got} vs {idx}")
    return scenario


_PAIRS = None


def neighbour_pairs():
    """{(sigA, sigB, posB - posA): (module, tagA, tagB)} for every two items of one table whose bytes overlap"""
    global _PAIRS
    if _PAIRS is not None:
        return _PAIRS
    sigs, reps = signatures()
    per_mod = {}
    for sig, members in sigs.items():
        for (mod, tag, pos) in members:
            per_mod.setdefault(mod, []).append((pos, sig[4], tag, sig))
    out = {}
    for mod, items in per_mod.items():
        items.sort(key=lambda t: (t[0], t[2]))
        for i, (pa, la, ta, sa) in enumerate(items):
            for (pb, lb, tb, sb) in items[i + 1:]:
                if pb >= pa + la:
                    break
                for (x, y, d, tx, ty) in ((sa, sb, pb - pa, ta, tb), (sb, sa, pa - pb, tb, ta)):
                    if x[0] == "GeckoTempStructAccessor" or y[0] == "GeckoTempStructAccessor":
                        continue
                    if x[3] and len(x[3]) > (x[7] or 255) + 1:
                        continue          # (labels beyond the field: the listed PurgeDelayTimer finding)
                    out.setdefault((x, y, d), (mod, tx, ty))
    _PAIRS = out
    return out


def neighbour(key):
    """writing item A leaves the decoded value of every other item B that shares bytes with it unchanged"""
    def scenario(sx):
        from geckolib.driver import GeckoStructure
        sigs, reps = signatures()
        sa, sb, d = key
        a0, b0 = reps[sa], reps[sb]
        blk = sx.block("block", 1024)
        lo = max(0, -d)
        hi = 1024 - max(a0.length, d + b0.length)
        pos = sx.int_("pos", lo, hi)
        writes = []
        st = GeckoStructure(lambda p, l, v: writes.append((p, l, v)))
        st.set_status_block(blk)
        a, b = copy.copy(a0), copy.copy(b0)
        for x, p_ in ((a, pos), (b, pos + d)):
            x.pos = p_
            x._observers = []
            x.struct = st
        a.set_read_write("ALL")
        before = b._get_raw_value(blk)
        v, _ = _values(sx, a0)
        a._set_value(v)
        p1, l1, n1 = writes[0]
        after = b._get_raw_value(apply_write(blk, p1, l1, n1))
        # (an item may legitimately alias the very same bits under another name: then B follows A by definition)
        sx.observe("raw", (before, after))
        fa = field_mask(a0)
        fb = field_mask(b0)
        # bit ranges inside the block: A occupies bits of bytes [pos, pos+la), B of [pos+d, pos+d+lb)
        shift_a = 8 * (max(a0.length, d + b0.length) - a0.length)
        shift_b = 8 * (max(a0.length, d + b0.length) - (d + b0.length)) if d >= 0 else 8 * (max(a0.length - d, b0.length) - b0.length)
        if d >= 0:
            bits_a, bits_b = fa << shift_a, fb << shift_b
        else:
            width = max(a0.length - d, b0.length)
            bits_a = fa << (8 * (width - (a0.length - d)))
            bits_b = fb << (8 * (width - b0.length))
        if bits_a & bits_b:
            return            # overlapping fields: not "another item's own bits"
        sx.check(before == after, "rt.neighbour-item-unchanged", lambda: f"{before} -> {after}")
    return scenario


def positions(modname):
    """Every item of one module lies inside the status block (so the proof at a symbolic
    in-range position applies to it), and belongs to a proved signature."""
    def scenario(sx):
        sigs, reps = signatures()
        bad = []
        n = 0
        for sig, members in sigs.items():
            for (mod, tag, pos) in members:
                if mod != modname:
                    continue
                n += 1
                if not (0 <= pos and pos + sig[4] <= 1024):
                    bad.append((tag, pos))
        sx.observe("items", n)
        for tag, pos in bad:
            sx.check(False, f"pos.inside-block.{tag}", f"{modname}.{tag} at {pos}")
        sx.check(n > 0, "pos.module-has-items")
    return scenario


def units(tier):
    sigs, reps = signatures()
    for sig, members in sorted(sigs.items(), key=lambda kv: sig_name(*kv)):
        if sig[0] == "GeckoTempStructAccessor":
            # values are decided in IEEE-754 arithmetic by the temperature units below; write permission here
            if reps[sig].read_write is None:
                yield Unit("ro-temperature." + sig_name(sig, members)[4:], temperature_ro(sig), ratio_floats=True)
            continue
        yield Unit(sig_name(sig, members), roundtrip(sig), max_paths=5000)
    # multi-step: bit-field signatures (a field shared with siblings)
    seen_shapes = set()
    for sig, members in sorted(sigs.items(), key=lambda kv: sig_name(*kv)):
        if sig[2] is None or sig[0] == "GeckoTempStructAccessor" or (sig[3] and len(sig[3]) > 8):
            continue        # (large label sets are covered one write at a time by the sig.* units)
        shape = (sig[0], sig[2], sig[4], sig[7], len(sig[3]) if sig[3] else 0)
        if shape in seen_shapes:
            continue
        seen_shapes.add(shape)
        yield Unit("sequence." + sig_name(sig, members)[4:], sequence(sig), max_paths=20000)
    # the same tag with different label lists in different tables
    by_tag = {}
    for sig, members in sigs.items():
        if sig[1] == "Enum":
            for (mod, tag, pos) in members:
                by_tag.setdefault(tag, {}).setdefault(sig[3], mod)
    for tag, variants in sorted(by_tag.items()):
        if len(variants) >= 2:
            mods2 = [m for _, m in sorted(variants.items(), key=lambda kv: kv[1])][:2]
            yield Unit(f"cross-table.{tag}", cross_table(tag, mods2), validate=False)
    if tier == "thorough":
        for key, (mod, ta, tb) in sorted(neighbour_pairs().items(), key=lambda kv: kv[1]):
            yield Unit(f"neighbour.{mod}.{ta}.{tb}", neighbour(key), max_paths=5000)
    mods = sorted({m for ms in sigs.values() for (m, _, _) in ms})
    for m in mods:
        yield Unit(f"pos.{m}", positions(m), validate=False)
    # temperature items: value read -> written back gives the same stored word, for all 65 536 words and both units,
    # on both write paths, in IEEE-754 doubles (the lemma units of C14 on one table pair)
    from . import c14
    lay = c14.layouts()
    for key, (plat, c, l) in sorted(lay.items(), key=lambda kv: kv[1]):
        d = dict(key)
        if all(k in d for k in ("TempUnits", "SetpointG")):
            for async_ in (False, True):
                yield Unit(f"temperature.{'async' if async_ else 'sync'}.{plat}-{c}-{l}",
                           c14.enc_dec(plat, c, l, "SetpointG", async_), query_timeout_ms=600000, tactic="qffpbv")
            break
