"""C14 - temperature values, units, limits and heater operation are consistent.

Real GeckoTempStructAccessor and GeckoWaterHeater executed with IEEE-754 double
semantics (z3 FloatingPoint, RNE; int() = round-toward-zero), symbolic raw word,
symbolic unit setting, symbolic decimal inputs k/10 and k/100, symbolic flag bits.
"""
from __future__ import annotations

import copy
import importlib

from .common import Unit, combos, apply_write, drive

PROPERTY = "C14"
FUNCTIONS = [
    "GeckoTempStructAccessor._get_value", "GeckoTempStructAccessor._set_value",
    "GeckoTempStructAccessor.async_set_value", "GeckoStructAccessor._get_value/_set_value (word path)",
    "GeckoWaterHeater.__init__/temperature_unit/min_temp/max_temp/current_temperature/target_temperature/"
    "real_target_temperature/current_operation", "GeckoSensor.state", "GeckoBinarySensor.is_on",
]
BOUNDS = {"raw words": "all 0..65535, both unit settings (and out-of-range unit bytes)",
          "decimal inputs": "k/10 and k/100 for every k with the temperature inside the allowed range +-10 degrees",
          "heater": "one exploration per distinct (TempUnits, SetpointG, DisplayedTempG, RealSetPointG, Heating, "
                    "CoolingDown) layout among the 895 shipped combinations"}
ASSUMPTIONS = [
    "heater.* units compare temperatures through the raw words (ratio abstraction n/c); the order lemma that "
    "justifies it is discharged in IEEE arithmetic by the monotone.* units of this same check",
    "IEEE-754 binary64 with round-to-nearest-even for * / + - and round-toward-zero for int(); the decimal string "
    "'d.d' parses to the double nearest k/10, which is what the IEEE division k/10.0 yields",
    "reference device model: a set-value stores the word big-endian",
]
SITES = ["dec.*", "enc.*", "dcm.*", "htr.*"]

HEATER_KEYS = ["TempUnits", "SetpointG", "DisplayedTempG", "RealSetPointG", "Heating", "CoolingDown"]


class _S:
    status_block = b"\x00" * 1024
    accessors = {}


_LAY = None


def layouts():
    """Distinct heater-relevant layouts among all combos: key -> (plat, cfg, log)."""
    global _LAY
    if _LAY is None:
        out = {}
        cache = {}
        for plat, c, l in combos():
            for kind, v in (("cfg", c), ("log", l)):
                if (plat, kind, v) not in cache:
                    m = importlib.import_module(f"geckolib.driver.packs.{plat}-{kind}-{v}")
                    cls = m.GeckoConfigStruct if kind == "cfg" else m.GeckoLogStruct
                    acc = cls(_S()).accessors
                    cache[(plat, kind, v)] = {k: _sig(acc[k]) for k in HEATER_KEYS if k in acc}
            d = dict(cache[(plat, "cfg", c)], **cache[(plat, "log", l)])
            key = tuple(sorted(d.items()))
            out.setdefault(key, (plat, c, l))
        _LAY = out
    return _LAY


def _sig(a):
    return (type(a).__name__, a.pos, a.bitpos, tuple(a.items) if a.items else None, a.length,
            getattr(a, "bitmask", None))


def _accessors(struct_, plat, c, l):
    cm = importlib.import_module(f"geckolib.driver.packs.{plat}-cfg-{c}")
    lm = importlib.import_module(f"geckolib.driver.packs.{plat}-log-{l}")
    acc = dict(cm.GeckoConfigStruct(struct_).accessors, **lm.GeckoLogStruct(struct_).accessors)
    return acc


def _setup(sx, plat, c, l, temp_key):
    from geckolib.driver import GeckoStructure
    writes = []
    s = GeckoStructure(lambda p, n, v: writes.append((p, n, v)))
    acc = _accessors(s, plat, c, l)
    s.accessors = {k: acc[k] for k in HEATER_KEYS if k in acc}
    blk = sx.bytes_("block", 1024)
    s.set_status_block(blk)
    ta = s.accessors[temp_key]
    ta.set_read_write("ALL")
    return s, blk, ta, writes


def _raw(blk, a):
    from sx.loader import STRUCT_SHIM
    return STRUCT_SHIM.unpack(">H", blk[a.pos:a.pos + 2])[0]


def _is_c(s):
    return s.accessors["TempUnits"].value == "C"


def _flt(x):
    from sx.core import SymFloat, SymInt
    return SymFloat.of(x) if isinstance(x, SymInt) else float(x)


def decode(plat, c, l, key):
    def scenario(sx):
        s, blk, ta, writes = _setup(sx, plat, c, l, key)
        r = _raw(blk, ta)
        val = ta.value
        is_c = bool(_is_c(s))
        sx.observe("unit_c", is_c)
        sx.observe("value", val)
        ref = (r / 18.0) if is_c else ((r + 320) / 10.0)
        sx.check(val == ref, "dec.formula", lambda: f"raw={r} value={val} ref={ref}")
        sx.check(ta._get_value(blk) == ref, "dec.formula-explicit-block")
    return scenario


def enc_dec(plat, c, l, key, async_):
    def scenario(sx):
        s, blk, ta, writes = _setup(sx, plat, c, l, key)
        r = _raw(blk, ta)
        val = ta.value
        if async_:
            from geckolib.driver import GeckoAsyncStructure

            async def rec(p, n, v):
                writes.append((p, n, v))
            s2 = GeckoAsyncStructure(None, rec)
            s2.accessors = s.accessors
            s2.set_status_block(blk)
            for a in s.accessors.values():
                a.struct = s2
            drive(ta.async_set_value(val))
        else:
            ta._set_value(val)
        sx.check(len(writes) == 1, "enc.one-write")
        p, n, v = writes[0]
        sx.observe("write", (p, n, v))
        sx.check((p == ta.pos) & (n == 2), "enc.own-field")
        sx.check(v == r, "enc.roundtrip-exact", lambda: f"raw {r} re-encoded as {v}")
    return scenario


def decimal(plat, c, l, key, denom):
    def scenario(sx):
        from sx.core import And
        s, blk, ta, writes = _setup(sx, plat, c, l, key)
        is_c = bool(_is_c(s))
        lo, hi = ((15 - 10, 40 + 10) if is_c else (59 - 10, 104 + 10))
        t1 = sx.decimal("k1", lo * denom, hi * denom, denom)
        t2 = sx.decimal("k2", lo * denom, hi * denom, denom)
        ta._set_value(t1)
        ta._set_value(t2)
        sx.check(len(writes) == 2, "dcm.two-writes")
        n1, n2 = writes[0][2], writes[1][2]
        sx.observe("enc", (n1, n2))
        sx.check((n1 >= 0) & (n1 <= 65535), "dcm.fits-word")
        back = ta._get_value(apply_write(blk, ta.pos, 2, n1))
        sx.observe("back", back)
        step = (1 / 18.0) if is_c else 0.1
        d = back - t1
        sx.check((d <= 0.0) & (-d < step), "dcm.within-one-step", lambda: f"t={t1} enc={n1} back={back}")
        sx.check(_imp(t1 <= t2, n1 <= n2), "dcm.monotonic",
                 lambda: f"{t1}->{n1} {t2}->{n2}")
    return scenario


def _imp(a, b):
    from sx.core import Implies
    return Implies(a, b)


def monotone(plat, c, l):
    """The order lemma behind the ratio abstraction used by the heater units (and by C11/C13):
    through the real decoder, raw1 < raw2 <=> value1 < value2 and raw1 == raw2 <=> value1 == value2."""
    def scenario(sx):
        from sx.core import Implies
        s, blk, ta, writes = _setup(sx, plat, c, l, "DisplayedTempG")
        tb = s.accessors["RealSetPointG"]
        r1, r2 = _raw(blk, ta), _raw(blk, tb)
        v1, v2 = ta.value, tb.value
        sx.observe("v", (v1, v2))
        sx.check(Implies(r1 < r2, v1 < v2), "dec.monotone-strict")
        sx.check(Implies(r1 == r2, v1 == v2), "dec.monotone-equal")
        sx.check(Implies(r1 > r2, v1 > v2), "dec.monotone-strict-gt")
    return scenario


class _Facade:
    unique_id = "uid"
    name = "spa"

    def __init__(self, spa):
        self._spa = spa
        self.spa = spa


class _Spa:
    def __init__(self, struct_):
        self.struct = struct_
        self.accessors = struct_.accessors


def heater(plat, c, l):
    def scenario(sx):
        from geckolib.driver import GeckoStructure
        from geckolib.automation.heater import GeckoWaterHeater
        from sx.core import Ite
        s = GeckoStructure(lambda *a: None)
        s.accessors = _accessors(s, plat, c, l)
        blk = sx.block("block", 1024)
        s.set_status_block(blk)
        h = GeckoWaterHeater(_Facade(_Spa(s)))
        acc = s.accessors
        is_c = bool(_is_c(s))
        sx.observe("unit_c", is_c)
        sx.check(h.temperature_unit == ("°C" if is_c else "°F"), "htr.unit-symbol")
        sx.check((h.min_temp, h.max_temp) == ((15, 40) if is_c else (59, 104)), "htr.limits")
        rc, rt, rr = (_raw(blk, acc[k]) for k in ("DisplayedTempG", "SetpointG", "RealSetPointG"))

        def ref(r):
            return (r / 18.0) if is_c else ((r + 320) / 10.0)
        # the formula itself is proved by the decode.* units; here: the right item feeds each reading
        sx.check_same(h.current_temperature, ref(rc), "htr.current")
        sx.check_same(h.target_temperature, ref(rt), "htr.target")
        sx.check_same(h.real_target_temperature, ref(rr), "htr.real-target")
        op = h.current_operation
        sx.observe("op", op)

        def flag(k):
            if k not in acc:
                return None
            v = acc[k].value
            if acc[k].type == "Bool":
                return v
            return v != "OFF" and v != ""
        hf, cf = flag("Heating"), flag("CoolingDown")
        if hf is not None and cf is not None:
            exp = "Heating" if hf else ("Cooling" if cf else "Idle")
        elif hf is not None and bool(hf):
            exp = "Heating"
        elif cf is not None and bool(cf):
            exp = "Cooling"
        else:
            exp = "Heating" if bool(rc < rr) else ("Cooling" if bool(rc > rr) else "Idle")
        sx.check(op == exp, "htr.operation", lambda: f"op={op} expected={exp}")
        sx.check(op in ("Heating", "Cooling", "Idle"), "htr.operation-domain")
        # a unit command every transmission of which is lost (the set-value callback goes nowhere): the spa
        # still reports the old unit, so symbol, limits and readings must keep following the block (round 7)
        if sx.choice("unanswered_unit_command", 2):
            h.set_temperature_unit("°F" if is_c else "°C")      # the other unit than the one in force
            sx.check(h.temperature_unit == ("°C" if is_c else "°F"), "htr.unit-symbol-after-unanswered-command",
                     lambda: f"{h.temperature_unit} with unit C={is_c}")
            sx.check((h.min_temp, h.max_temp) == ((15, 40) if is_c else (59, 104)), "htr.limits-after-unanswered-command",
                     lambda: f"{h.min_temp},{h.max_temp} with unit C={is_c}")
            sx.check_same(h.target_temperature, ref(rt), "htr.target-after-unanswered-command")
        # the unit is then changed on the spa side (keypad / another client): a status update patches TempUnits
        tu = acc["TempUnits"]
        nb = sx.bytes_("new_units_byte", 1)
        s.replace_status_block_segment(tu.pos, nb)
        is_c2 = bool(_is_c(s))
        sx.observe("unit_c_after", is_c2)
        sx.check(h.temperature_unit == ("°C" if is_c2 else "°F"), "htr.unit-symbol-follows-update")
        sx.check((h.min_temp, h.max_temp) == ((15, 40) if is_c2 else (59, 104)), "htr.limits-follow-update",
                 lambda: f"{h.min_temp},{h.max_temp} with unit C={is_c2}")
        rt2 = _raw(s.status_block, acc["SetpointG"])
        sx.check_same(h.target_temperature, (rt2 / 18.0) if is_c2 else ((rt2 + 320) / 10.0), "htr.target-follows-update")
    return scenario


def units(tier):
    lay = layouts()
    seen_dec = set()
    for key, (plat, c, l) in sorted(lay.items(), key=lambda kv: kv[1]):
        d = dict(key)
        if not all(k in d for k in ("TempUnits", "SetpointG", "DisplayedTempG", "RealSetPointG")):
            continue   # combos without the heater items cannot build a heater (a C11 finding)
        tag = f"{plat}-{c}-{l}"
        yield Unit(f"heater.{tag}", heater(plat, c, l), ratio_floats=True)
        # arithmetic lemmas: once per distinct (TempUnits layout, temp accessor kind)
        tu = d["TempUnits"]
        k2 = (tu[2], tu[3])
        if k2 in seen_dec:
            continue
        seen_dec.add(k2)
        yield Unit(f"decode.{tag}.SetpointG", decode(plat, c, l, "SetpointG"), query_timeout_ms=300000)
        yield Unit(f"decode.{tag}.DisplayedTempG", decode(plat, c, l, "DisplayedTempG"), query_timeout_ms=300000)
        yield Unit(f"monotone.{tag}", monotone(plat, c, l), query_timeout_ms=600000, tactic="qffpbv")
        yield Unit(f"encdec.sync.{tag}", enc_dec(plat, c, l, "SetpointG", False), query_timeout_ms=600000, tactic="qffpbv")
        yield Unit(f"encdec.async.{tag}", enc_dec(plat, c, l, "SetpointG", True), query_timeout_ms=600000, tactic="qffpbv")
        yield Unit(f"decimal10.{tag}", decimal(plat, c, l, "SetpointG", 10), query_timeout_ms=600000, tactic="qffpbv")
        if tier == "thorough":
            yield Unit(f"decimal100.{tag}", decimal(plat, c, l, "SetpointG", 100), query_timeout_ms=1200000, tactic="qffpbv")
