"""Shared construction of spa + facade objects on a (partly) symbolic status block."""
from __future__ import annotations

import importlib

from .common import SRC_ID, CLI_ID, DEST
from . import refmodel


class TaskMan:
    """Stands in for AsyncTasks (the owner of background tasks): records instead of scheduling."""
    unique_id = "SPA010203040506"
    spa_name = "My Spa"

    def __init__(self):
        self.added = []
        self.cancelled = []

    def add_task(self, coro, name, key):
        self.added.append((name, key))
        coro.close()

    def cancel_key_tasks(self, key):
        self.cancelled.append(key)


_TABLES = {}


def tables(plat, c, l):
    k = (plat, c, l)
    if k not in _TABLES:
        cm = importlib.import_module(f"geckolib.driver.packs.{plat}-cfg-{c}")
        lm = importlib.import_module(f"geckolib.driver.packs.{plat}-log-{l}")
        pm = importlib.import_module(f"geckolib.driver.packs.{plat}")
        _TABLES[k] = (pm.GeckoPack, cm.GeckoConfigStruct, lm.GeckoLogStruct)
    return _TABLES[k]


def async_spa(plat, c, l, block, taskman=None):
    """A real GeckoAsyncSpa in the state _connect leaves it in, on the given block."""
    import time
    from geckolib.async_spa import GeckoAsyncSpa
    from geckolib.async_spa_descriptor import GeckoAsyncSpaDescriptor

    async def ev(*a, **k):
        pass
    tm = taskman or TaskMan()
    spa = GeckoAsyncSpa(CLI_ID, GeckoAsyncSpaDescriptor(SRC_ID, "My Spa", DEST), tm, ev)
    P, C, L = tables(plat, c, l)
    spa.pack_class = P(spa.struct)
    spa.pack_type = spa.pack_class.type
    spa.config_version, spa.log_version = c, l
    spa.config_class = C(spa.struct)
    spa.log_class = L(spa.struct)
    spa.struct.set_status_block(block)
    spa.struct.build_accessors(spa.config_class, spa.log_class)
    spa._is_connected = True
    spa._last_ping = time.monotonic()
    return spa, tm


class SyncSpa:
    """The part of the threaded GeckoSpa that the threaded facade touches."""

    class descriptor:
        name = "My Spa"
        identifier_as_string = "SPA01:02:03:04:05:06"

    def __init__(self, plat, c, l, block):
        from geckolib.driver import GeckoStructure
        self.sets = []
        self.presses = []
        self.struct = GeckoStructure(lambda p, n, v: self.sets.append((p, n, v)))
        P, C, L = tables(plat, c, l)
        self.struct.set_status_block(block)
        self.config_class, self.log_class = C(self.struct), L(self.struct)
        self.struct.build_accessors(self.config_class, self.log_class)

    @property
    def accessors(self):
        return self.struct.accessors

    def press(self, k):
        self.presses.append(k)


class _NoThread:
    """stands in for threading.Thread inside geckolib.automation.facade: the update thread is never started"""

    def __init__(self, *a, **k):
        pass

    def start(self):
        pass

    def join(self, *a):
        pass


def sync_facade(spa):
    """the real GeckoFacade.__init__ (its update thread replaced by a no-op double), then the real
    _on_connected (heater, watercare, keypad, reminders, scan_outputs, observers)"""
    import geckolib.automation.facade as F
    spa.isopen = False
    saved = F.threading
    F.threading = type("T", (), {"Thread": _NoThread})
    try:
        f = F.GeckoFacade(spa)
    finally:
        F.threading = saved
    f._on_connected(spa)
    return f


def set_item(block_items, acc, index):
    """Store label/raw index `index` into the field of accessor `acc` inside a list of byte values."""
    rec = refmodel.record_of(acc)
    pos, size = rec["pos"], rec["size"]
    old = block_items[pos] if size == 1 else block_items[pos] * 256 + block_items[pos + 1]
    if rec["bitpos"] is not None:
        new = (old & ~(rec["mask"] << rec["bitpos"])) | ((index & rec["mask"]) << rec["bitpos"])
    else:
        new = index
    if size == 1:
        block_items[pos] = new & 255
    else:
        block_items[pos] = (new >> 8) & 255
        block_items[pos + 1] = new & 255


def expected_devices(output_labels, all_device_keys, user_demand_keys, devices_const):
    """Independent, set-based oracle for the device inventory (in table order)."""
    wired = [v for v in output_labels if v != "NA"]
    uds = {u.upper() for u in user_demand_keys}
    out = []
    for d in all_device_keys:
        if d in out:
            continue
        if any(v.startswith(d) for v in wired) and f"UD{d}".upper() in uds and d in devices_const:
            out.append(d)
    return out


def block_from_items(items):
    from sx.core import Vec
    if all(isinstance(x, int) for x in items):
        return bytes(items)
    return Vec(items).fold()
