"""C20 - threaded engine: FIFO paced sends, first-match dispatch, bounded handler life.

The real engine step functions of GeckoUdpSocket are executed one by one (no
threads) with a symbolic real-valued clock: the send throttle, FIFO order,
first-match dispatch with exception isolation, the timeout/retry life of a request
handler over a stepped engine loop, and the blocking client's handshake against
the real simulator under symbolic loss bits.
"""
from __future__ import annotations

import socket as _socket
from fractions import Fraction

from .common import Unit, SRC_ID, CLI_ID, DEST
from .c16 import _Desc

PROPERTY = "C20"
FUNCTIONS = ["GeckoUdpSocket._process_send_requests/queue_send/add_receive_handler/dispatch_recevied_data/"
             "_process_received_data/_cleanup_handlers/_BusyLock", "GeckoUdpProtocolHandler.loop/retry/has_timedout/age/"
             "handled/_reset_timeout/_default_retry_failed_handler", "GeckoVersionProtocolHandler.request/handle",
             "GeckoSpa.start_connect/_on_version_received/_on_channel_received/_on_config_received/_loop_func/_final_connect",
             "GeckoStructure.retry_request/_on_status_block_received", "GeckoSimulator handlers"]


def bounds(tier):
    q = tier == "quick"
    return {"send step": "queue of 0..4 handlers, clock and last-send time free reals",
            "pacing run": f"{3 if q else 4} engine iterations with free real time steps",
            "dispatch": "<= 4 registered handlers, each accepting or not and raising or not (symbolic booleans)",
            "handler life": f"timeout T a free positive real, retries N in 0..{2 if q else 3}, <= 2N+4 engine iterations with "
                            "free real time steps, answered at any iteration or never",
            "handshake": f"default snapshot block (concrete), {5 if q else 8} symbolic loss bits on the first datagrams in "
                         "either direction, unlimited retry budget for the remainder; and the first 0..3 requests of each of the four "
                         "handshake steps lost (handshakes of up to a minute of virtual time)"}


ASSUMPTIONS = [
    "engine iterations are stepped in the order of GeckoUdpSocket._thread_func: send, receive, handler.loop for every "
    "handler, cleanup, _loop_func; real thread scheduling is outside the technique",
    "clock readings are mathematical reals; the socket is a double (sendto records, recvfrom pops an inbox or times out)",
    "the retry clause is asserted for handlers built by the standard request() factories",
]
SITES = ["eng.*", "hs.*"]
PARMS = (DEST[0], DEST[1], SRC_ID, CLI_ID)


class Clock:
    """stands in for a loop: patched_time() reads .time()"""

    def __init__(self, t):
        self._t = t

    def time(self):
        return self._t


class MockSocket:
    def __init__(self, clock):
        self.sent = []
        self.inbox = []
        self.clock = clock

    def sendto(self, data, dest):
        self.sent.append((data, dest, self.clock.time()))

    def recvfrom(self, n):
        if self.inbox:
            return self.inbox.pop(0)
        raise _socket.timeout()

    def settimeout(self, t):
        pass

    def close(self):
        pass


class H:
    """a queued send: just bytes"""

    def __init__(self, data, raises=False):
        self.data = data
        self.raises = raises
        self.last_destination = None

    @property
    def send_bytes(self):
        if self.raises:
            raise ValueError("cannot build")
        return self.data


def send_step(sx):
    from sx.vloop import patched_time
    from geckolib.driver import GeckoUdpSocket
    now = sx.real_("now", 0, 1000)
    last = sx.real_("last_send", 0, 1000)
    sx.assume(last <= now)
    clock = Clock(now)
    with patched_time(clock):
        s = GeckoUdpSocket(MockSocket(clock))
        s._last_send_time = last
        n = sx.choice("queued", 5)
        hs = [H(b"D%d" % i, raises=(i == 0 and bool(sx.choice("head_raises", 2)))) for i in range(n)]
        for h in hs:
            s.queue_send(h, DEST)
        s._process_send_requests()
        sent = s._socket.sent
        due = (now - last) >= (1.0 / 50)
        sx.observe("sent", len(sent))
        if bool(due) and n > 0 and not hs[0].raises:
            sx.check(len(sent) == 1 and sent[0][0] == b"D0" and sent[0][1] == DEST, "eng.sends-the-head-of-the-queue")
            sx.check(s._last_send_time == now, "eng.send-time-stamped", lambda: f"{s._last_send_time} vs {now}")
            sx.check([x[0] for x in s._send_handlers] == hs[1:], "eng.fifo-rest-kept-in-order")
        elif bool(due) and n > 0:
            sx.check(len(sent) == 0 and [x[0] for x in s._send_handlers] == hs[1:], "eng.failing-send-is-dropped-engine-goes-on")
        else:
            sx.check(len(sent) == 0, "eng.throttled-or-empty-sends-nothing")
            sx.check([x[0] for x in s._send_handlers] == hs, "eng.queue-untouched-when-throttled")
            sx.check(s._last_send_time == last, "eng.last-send-time-untouched")
        sx.check(s._busy_count == 0, "eng.busy-count-balanced")


def pacing_run(iters):
    def scenario(sx):
        from sx.vloop import patched_time
        from geckolib.driver import GeckoUdpSocket
        clock = Clock(0)
        with patched_time(clock):
            s = GeckoUdpSocket(MockSocket(clock))
            idle = sx.real_("idle_before_burst", 0, 100)
            clock._t = idle
            hs = [H(b"D%d" % i) for i in range(4)]
            if sx.choice("same_handler_queued_again", 2):
                hs[2] = hs[0]          # the ping handler, a retry: one object queued while its earlier entry still waits
            for h in hs:
                s.queue_send(h, DEST)
            for k in range(iters):
                s._process_send_requests()
                clock._t = clock._t + sx.real_(f"step{k}", 0, 1)
            sent = s._socket.sent
            sx.observe("n", len(sent))
            sx.check([x[0] for x in sent] == [h.data for h in hs[:len(sent)]], "eng.fifo-order")
            sx.check(len(sent) + len(s._send_handlers) == 4, "eng.every-queued-send-leaves-or-still-waits")
            for a, b in zip(sent, sent[1:]):
                sx.check((b[2] - a[2]) >= (1.0 / 50), "eng.sends-at-least-a-throttle-interval-apart",
                         lambda: f"{a[2]} then {b[2]}")
    return scenario


class RH:
    """registered receive handler with scripted behaviour"""

    def __init__(self, name, accepts, raises, log):
        self.name, self.accepts, self.raises, self.log = name, accepts, raises, log
        self.should_remove_handler = False

    def can_handle(self, data, sender):
        self.log.append(("can", self.name))
        return self.accepts

    def handle(self, data, sender):
        self.log.append(("handle", self.name))
        if self.raises:
            raise RuntimeError("handler failed")

    def handled(self, sender):
        self.log.append(("handled", self.name))

    def loop(self, sock):
        pass


def dispatch(sx):
    from geckolib.driver import GeckoUdpSocket
    clock = Clock(0)
    s = GeckoUdpSocket(MockSocket(clock))
    n = 1 + sx.choice("handlers", 4)
    log = []
    hs = [RH(i, sx.bool_(f"accepts{i}"), bool(sx.choice(f"raises{i}", 2)), log) for i in range(n)]
    for h in hs:
        s.add_receive_handler(h)
    via_socket = bool(sx.choice("via_recvfrom", 2))
    if via_socket:
        s._socket.inbox.append((b"DATA", DEST))
        s._process_received_data()
    else:
        s.dispatch_recevied_data(b"DATA", DEST)
    first = None
    for h in hs:
        if bool(h.accepts):
            first = h.name
            break
    handled = [x[1] for x in log if x[0] == "handle"]
    sx.observe("handled", handled)
    sx.check(handled == ([first] if first is not None else []), "eng.first-accepting-handler-gets-it-once", lambda: f"{handled} vs {first}")
    asked = [x[1] for x in log if x[0] == "can"]
    sx.check(asked == list(range((first + 1) if first is not None else n)), "eng.handlers-asked-in-registration-order")
    if first is not None and not hs[first].raises:
        sx.check(("handled", first) in log, "eng.handled-callback-follows")
    sx.check(s._busy_count == 0 and s._receive_handlers == hs, "eng.exception-leaves-engine-state-intact")
    # the engine keeps working after a failing handler
    s.dispatch_recevied_data(b"MORE", DEST)
    sx.check(len([x for x in log if x[0] == "can"]) > len(asked) or n == 0, "eng.engine-goes-on-after-handler-exception")


def cleanup_keeps_order(sx):
    """removing finished handlers keeps the survivors in registration order (first-match dispatch depends on it)"""
    from geckolib.driver import GeckoUdpSocket
    clock = Clock(0)
    s = GeckoUdpSocket(MockSocket(clock))
    log = []
    n = [9, 17][sx.choice("handlers", 2)]      # (enough handlers that an accidental ordering cannot look like the right one)
    hs = [RH(i, True, False, log) for i in range(n)]
    order = list(range(n))
    if sx.choice("registered_in_reverse_creation_order", 2):
        order.reverse()
    for i in order:
        s.add_receive_handler(hs[i])
    gone = order[sx.choice("finished_handler", 3) % n]
    hs[gone].should_remove_handler = True
    s._cleanup_handlers()
    want = [hs[i] for i in order if i != gone]
    sx.check(s._receive_handlers == want, "eng.cleanup-keeps-registration-order",
             lambda: f"{[h.name for h in s._receive_handlers]} vs {[h.name for h in want]}")
    s.dispatch_recevied_data(b"DATA", DEST)
    handled = [x[1] for x in log if x[0] == "handle"]
    sx.check(handled == [want[0].name], "eng.first-registered-survivor-gets-the-datagram", lambda: str(handled))


def cleanup_race(sx):
    """another thread registers a handler while _cleanup_handlers is between its locked sections (stepped with a
    lock double that runs the other thread's call at a chosen acquisition): the new handler must survive"""
    from geckolib.driver import GeckoUdpSocket
    from .c16 import _HookLock
    clock = Clock(0)
    s = GeckoUdpSocket(MockSocket(clock))
    log = []
    old = [RH(i, False, False, log) for i in range(2)]
    for h in old:
        s.add_receive_handler(h)
    removing = bool(sx.choice("a_handler_is_being_removed", 2))
    old[0].should_remove_handler = removing
    late = RH("late", True, False, log)
    at = 1 + sx.choice("other_thread_runs_before_acquisition", 5)
    s._lock = _HookLock(at, lambda: s._receive_handlers.append(late))
    s._cleanup_handlers()
    ran = s._lock.n >= at
    if ran:
        sx.check(late in s._receive_handlers, "eng.handler-added-during-cleanup-survives", lambda: f"at acquisition {at}")
    sx.check((old[0] in s._receive_handlers) == (not removing), "eng.cleanup-removes-exactly-the-flagged-handlers")
    sx.check(old[1] in s._receive_handlers, "eng.cleanup-keeps-the-others")
    if ran:
        s._lock = _HookLock(99, lambda: None)
        s.dispatch_recevied_data(b"DATA", DEST)
        sx.check(("handle", "late") in log, "eng.late-handler-receives-datagrams")


def handler_life(maxretries):
    def scenario(sx):
        from sx.vloop import patched_time
        from geckolib.driver import GeckoUdpSocket, GeckoVersionProtocolHandler, GeckoPacketProtocolHandler
        from .common import frame
        clock = Clock(0)
        with patched_time(clock):
            s = GeckoUdpSocket(MockSocket(clock))
            s._last_send_time = -1
            N = sx.choice("retries", maxretries + 1)
            T = sx.real_("timeout", 0, 10)
            sx.assume(T > 0)
            got = []
            s.add_receive_handler(GeckoPacketProtocolHandler(socket=s))
            with_cb = bool(sx.choice("request_has_a_callback", 2))
            req = GeckoVersionProtocolHandler.request(
                1, parms=PARMS, on_handled=(lambda h, snd: got.append(clock.time())) if with_cb else None)
            req._timeout_in_seconds = T
            req._retry_count = N
            req._start_time = clock.time()
            s.add_receive_handler(req)
            backlog = [0, 3][sx.choice("sends_queued_ahead", 2)]
            for i in range(backlog):
                s.queue_send(H(b"B%d" % i), DEST)
            s.queue_send(req, PARMS)
            iters = 2 * N + 4 + backlog

            def mine():
                """transmissions of the request: on the wire or still waiting in the queue"""
                return len([x for x in s._socket.sent if x[0] != b"B%d" % 0 and not x[0].startswith(b"B")]) + \
                    len([x for x in s._send_handlers if x[0] is req])
            answer_at = sx.choice("answer_at_iteration", iters + 1)        # == iters: never
            # (a reply cannot precede the first transmission, which waits behind the sends queued ahead)
            sx.assume(answer_at >= backlog)
            removed_at = None
            sends_at_removal = None
            answered_sends = None
            for k in range(iters):
                if k == answer_at:
                    s._socket.inbox.append((frame(b"SVERS\x00\x01\x02\x03\x00\x04\x05\x06", SRC_ID, CLI_ID), DEST))
                s._process_send_requests()
                s._process_received_data()
                if k == answer_at:
                    answered_sends = mine()
                for h in list(s._receive_handlers):
                    h.loop(s)
                s._cleanup_handlers()
                if removed_at is None and req not in s._receive_handlers:
                    removed_at = k
                    sends_at_removal = mine()
                # time passes: at least the throttle interval so queued sends can leave
                clock._t = clock._t + Fraction(1, 32) + sx.real_(f"dt{k}", 0, 20)
            # flush what is still queued
            total = mine()
            sx.observe("total", total)
            if answer_at < iters and (removed_at is None or removed_at >= answer_at):
                sx.check((bool(got) or not with_cb) and removed_at == answer_at, "eng.answered-request-is-removed-at-once",
                         lambda: f"{removed_at} vs {answer_at}")
                sx.check(total == answered_sends, "eng.no-transmission-after-the-answer", lambda: f"{total} vs {answered_sends}")
                sx.check(total <= N + 1, "eng.at-most-n-retransmissions")
            else:
                sx.check(total <= N + 1, "eng.at-most-n-retransmissions", lambda: f"{total} > {N}+1")
                if removed_at is not None:
                    sx.check(sends_at_removal == N + 1, "eng.removed-only-after-exactly-n-retransmissions",
                             lambda: f"{sends_at_removal} vs {N + 1}")
                    sx.check(total == N + 1, "eng.nothing-sent-after-removal")
    return scenario


def handshake(nbits, per_step=False, sim_drops=False):
    def scenario(sx):
        from sx.vloop import patched_time
        from geckolib.spa import GeckoSpa
        from geckolib.utils.simulator import GeckoSimulator
        from geckolib.utils.shared_command import GeckoCmd
        from geckolib.utils.snapshot import GeckoSnapshot
        from .c13 import SNAPDIR
        import os
        GeckoCmd._init_logging = lambda self: None
        clock = Clock(0.0)
        with patched_time(clock):
            sim = GeckoSimulator()
            snap = GeckoSnapshot.parse_log_file(os.path.join(SNAPDIR, "default.snapshot"))[0]
            sim.set_snapshot(snap)
            sim._socket._socket = MockSocket(clock)
            restore = []
            if sim_drops:
                # the simulator's own lossy mode (its `reliability` command): exactly one of its first 36 keep/ignore
                # draws says ignore - a whole request, or one segment of the status answer
                import geckolib.utils.simulator as simmod
                drop_at = sx.choice("simulator_ignores_draw", 36)
                calls = [0]

                class _Rnd:
                    @staticmethod
                    def random():
                        calls[0] += 1
                        return 0.9 if calls[0] - 1 == drop_at else 0.1
                restore.append((simmod, simmod.random))
                simmod.random = _Rnd
                sim._reliability = 0.5
                simmod.print = lambda *a, **k: None          # (the simulator announces every ignored request)
            spa = GeckoSpa(_Desc())
            spa._socket = MockSocket(clock)
            spa.open = lambda: None
            spa._ping_thread = type("T", (), {"start": lambda self: None, "join": lambda self: None})()
            import threading
            spa._exit_event = threading.Event()
            spa.start_connect()
            bit = [0]
            drop_seg = [None, 1, 3, 13, 26][sx.choice("lost_status_segment", 5)]
            dropped = [False]

            def lost_segment(data):
                """the chosen STATV segment of the first status answer is lost (the rest of that answer arrives)"""
                if drop_seg is None or dropped[0]:
                    return False
                i = data.find(b"<DATAS>STATV")
                if i >= 0 and data[i + 12] == drop_seg:
                    dropped[0] = True
                    return True
                return False

            def lost():
                if per_step:
                    return False
                if bit[0] < nbits:
                    bit[0] += 1
                    return bool(sx.choice(f"loss{bit[0] - 1}", 2))
                return False
            # per-step variant: the first k requests of each handshake step (version, channel, config files, status
            # block) are lost, k in 0..3 per step - well inside the retry budget, but a long handshake
            steps = [b"AVERS", b"CURCH", b"SFILE", b"STATU"]
            budget = {v: (sx.choice(f"lost_attempts_{v.decode()}", 4) if per_step else 0) for v in steps}

            def request_lost(data):
                for v in steps:
                    if b"<DATAS>" + v in data and budget[v] > 0:
                        budget[v] -= 1
                        return True
                return False
            for it in range(4000):
                if spa._is_connected:
                    break
                spa._last_send_time = -1.0
                sim._socket._last_send_time = -1.0
                spa._process_send_requests()
                for (data, dest, t) in spa._socket.sent:
                    if not lost() and not request_lost(data):
                        sim._socket._socket.inbox.append((data, DEST))
                del spa._socket.sent[:]
                progressed = False
                while sim._socket._socket.inbox:
                    sim._socket._process_received_data()
                    progressed = True
                while sim._socket._send_handlers:
                    sim._socket._last_send_time = -1.0
                    sim._socket._process_send_requests()
                for (data, dest, t) in sim._socket._socket.sent:
                    if not lost() and not lost_segment(data):
                        spa._socket.inbox.append((data, DEST))
                del sim._socket._socket.sent[:]
                while spa._socket.inbox:
                    spa._process_received_data()
                    progressed = True
                for h in list(spa._receive_handlers):
                    h.loop(spa)
                spa._cleanup_handlers()
                spa._loop_func()
                if not progressed and not spa._send_handlers:
                    clock._t += 5.0       # nothing in flight: let the pending request time out and retry
            for mod_, rnd_ in restore:
                mod_.random = rnd_
                if "print" in mod_.__dict__:
                    del mod_.print
            sx.observe("iterations", it)
            sx.check(spa._is_connected, "hs.handshake-completes-when-one-attempt-per-step-gets-through")
            sx.check(spa.struct.status_block == sim.structure.status_block, "hs.client-block-identical-to-the-simulators")
            sx.check((spa.config_version, spa.log_version, spa.pack_type) == (snap.config_version, snap.log_version, sim.pack_type),
                     "hs.versions-learned")
    return scenario


def units(tier):
    q = tier == "quick"
    yield Unit("send-step", send_step)
    yield Unit("pacing-run", pacing_run(3 if q else 4), max_paths=100000)
    yield Unit("dispatch", dispatch, max_paths=100000)
    yield Unit("cleanup-race", cleanup_race)
    yield Unit("cleanup-keeps-order", cleanup_keeps_order, validate=False)
    N = 2 if q else 3
    for n in range(N + 1):
        yield Unit(f"handler-life.retries{n}", handler_life(N), presets={"retries": n}, max_paths=400000, max_depth=3000)
    yield Unit("handshake", handshake(5 if q else 8), validate=False, max_paths=100000)
    yield Unit("handshake.simulator-drops", handshake(0, sim_drops=True), validate=False, max_paths=100000,
               presets={"lost_status_segment": 0})
    for k in range(4):
        yield Unit(f"handshake.lossy-steps.{k}", handshake(0, per_step=True), validate=False, max_paths=100000,
                   presets={"lost_attempts_AVERS": k})
