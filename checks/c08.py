"""C08 - lifecycle follows the state table; facade-ready/teardown are well-bracketed.

One step of the real GeckoAsyncSpaMan._handle_event from every invariant-satisfying
manager state for every enabled event (=> sequential histories of any length), the
real async_reset from every state, and the real locate / connect brackets around
I/O phases that return, raise, or emit any allowed sub-event sequence.
"""
from __future__ import annotations

from .common import Unit, SRC_ID, CLI_ID, DEST, drive

PROPERTY = "C08"
FUNCTIONS = ["GeckoAsyncSpaMan._handle_event", "GeckoAsyncSpaMan.async_reset", "GeckoAsyncSpaMan.async_locate_spas",
             "GeckoAsyncSpaMan.async_connect_to_spa", "GeckoAsyncSpaMan.async_connect", "GeckoAsyncSpaMan.StatusSensor.on_event",
             "GeckoAsyncSpaMan.RadioConnectionSensor.set_signal", "GeckoSpaState.to_string", "GeckoAsyncSpa.disconnect"]
BOUNDS = {"concurrency": "pairs of runtime events delivered from two tasks in CONNECTED, client handler suspending twice per delivery",
          "histories": "sequential histories of any length by induction over one step from an arbitrary invariant-satisfying state",
          "pre-states": "10 manager states x facade / spa (connected or not) / descriptors / sensors present, filtered by the invariant",
          "phases": "locator returns 0 or 1 spa or raises; connect emits any prefix of the documented sub-event chain, then "
                    "completes, reports retry exhaustion or a missing pack, or raises; the facade constructor may raise"}
ASSUMPTIONS = [
    "the inductive claim is for sequential histories; events raised concurrently while a client handler is suspended "
    "are covered only for pairs of runtime events from CONNECTED (concurrent-pair unit: the handler yields twice per "
    "delivery, the second event starts 0..2 scheduling rounds later), plus the sequential sufficient condition that the "
    "state has left CONNECTED before teardown is announced",
    "enabledness: locator events while LOCATING; CONNECTION_GOT_* while CONNECTING with a spa object; ping/RF/disconnect "
    "events once a spa object exists; refresh only after the radio sensors exist; watercare-error only with facade and spa",
    "the two I/O phases (GeckoAsyncLocator.discover, GeckoAsyncSpa.connect) and the facade constructor are replaced by "
    "doubles in the manager module's namespace; GeckoAsyncSpa.disconnect is the real one",
    "the transition table is transcribed from spa_state.py / spa_events.py docstrings",
]
SITES = ["lc.*"]



# the status-sensor text of every lifecycle state, transcribed from the audited commit (GeckoSpaState.to_string)
_TEXTS = {"CONNECTED": "Connected", "CONNECTING": "Connecting...", "ERROR_RF_FAULT": "Lost contact with spa (RFERR)",
          "ERROR_PING_MISSED": "Lost contact with in.touch2 module", "ERROR_NEEDS_ATTENTION": "Needs attention, check logs",
          "LOCATING_SPAS": "Searching for spas...", "LOCATED_SPAS": "Choose spa",
          "ERROR_SPA_NOT_FOUND": "Cannot find spa, check logs"}


def _text(state):
    """what the status sensor has to show for a state.  The wording is the library's to choose; what the audited
    version guarantees - a dedicated text for each of these states, no two alike - is asserted (rewording is fine,
    merging or losing an entry is not)."""
    from geckolib.spa_state import GeckoSpaState as S_
    texts = {n: S_.to_string(S_[n]) for n in _TEXTS}
    ok = all(t != f"{S_[n]}" for n, t in texts.items()) and len(set(texts.values())) == len(texts)
    if not ok:
        return _TEXTS.get(state.name, f"{state}")     # fall back to the audited wording: the comparison then fails
    return S_.to_string(state)

def _mod():
    import geckolib.async_spa_manager as M
    return M


class FakeFacade:
    def __init__(self, *a, **k):
        self.disconnected = 0
        self.modes = []
        outer = self

        class WC:
            def change_watercare_mode(self, m):
                outer.modes.append(m)
        self._water_care = WC()

    async def disconnect(self):
        self.disconnected += 1


def make_manager(record):
    M = _mod()

    class Man(M.GeckoAsyncSpaMan):
        async def handle_event(self, event, **kwargs):
            record.append((event, self.spa_state, self.facade, self._status_sensor.state if self._status_sensor else None))

    return Man("uuid", spa_identifier="SPA01:02:03:04:05:06", spa_name="My Spa")


def real_spa(man, connected):
    from geckolib.async_spa import GeckoAsyncSpa
    from geckolib.async_spa_descriptor import GeckoAsyncSpaDescriptor
    spa = GeckoAsyncSpa(CLI_ID, GeckoAsyncSpaDescriptor(SRC_ID, "My Spa", DEST), man, man._handle_event)
    spa._is_connected = connected

    async def wc():
        return 3
    spa.async_get_watercare = wc
    return spa


def states():
    from geckolib.spa_state import GeckoSpaState as S
    return list(S)


def expected_next(state, event, facade):
    from geckolib.spa_state import GeckoSpaState as S
    from geckolib.spa_events import GeckoSpaEvent as E
    tbl = {E.LOCATING_STARTED: S.LOCATING_SPAS, E.LOCATING_FINISHED: S.LOCATED_SPAS, E.SPA_NOT_FOUND: S.ERROR_SPA_NOT_FOUND,
           E.CONNECTION_STARTED: S.CONNECTING, E.CONNECTION_SPA_COMPLETE: S.SPA_READY,
           E.CONNECTION_PROTOCOL_RETRY_COUNT_EXCEEDED: S.ERROR_NEEDS_ATTENTION,
           E.ERROR_PROTOCOL_RETRY_COUNT_EXCEEDED: S.ERROR_NEEDS_ATTENTION, E.ERROR_TOO_MANY_RF_ERRORS: S.ERROR_NEEDS_ATTENTION}
    if event in tbl:
        return tbl[event]
    if event == E.CONNECTION_FINISHED:
        return S.CONNECTED if facade else state
    if state == S.CONNECTED:
        if event == E.RUNNING_PING_NO_RESPONSE:
            return S.ERROR_PING_MISSED
        if event == E.ERROR_RF_ERROR:
            return S.ERROR_RF_FAULT
        if event == E.RUNNING_SPA_DISCONNECTED:
            return S.IDLE
    if event == E.RUNNING_PING_RECEIVED and state in (S.ERROR_PING_MISSED, S.ERROR_RF_FAULT, S.ERROR_NEEDS_ATTENTION):
        return S.IDLE
    return state


def _prestate(sx, man, rec):
    """an arbitrary manager state satisfying the invariant"""
    from geckolib.spa_state import GeckoSpaState as S
    M = _mod()
    st = states()[sx.choice("state", len(states()))]
    has_spa = bool(sx.choice("has_spa", 2))
    spa_connected = has_spa and bool(sx.choice("spa_connected", 2))
    has_facade = bool(sx.choice("has_facade", 2))
    has_desc = sx.choice("descriptors", 3)
    sensors = has_spa and bool(sx.choice("radio_sensors", 2))
    # invariant I1 and structural facts of reachable states
    sx.assume(not (st == S.CONNECTED) or (has_facade and spa_connected))
    sx.assume(not has_facade or spa_connected)      # I0: a facade is only ever built on, and kept with, a connected spa
    sx.assume(not (st in (S.IDLE,) and has_facade and not has_spa))
    man._spa_state = st
    man._spa = real_spa(man, spa_connected) if has_spa else None
    man._facade = FakeFacade() if has_facade else None
    man._spa_descriptors = [None, [], ["d"]][has_desc]
    man._status_sensor = M.GeckoAsyncSpaMan.StatusSensor(man)
    man._status_sensor._state = _text(st)
    if sensors:
        man._spa.signal = sx.int_("signal", 0, 255)
        man._spa.channel = sx.int_("channel", 0, 255)
        man._radio_sensor = M.GeckoAsyncSpaMan.RadioConnectionSensor(man)
        man._channel_sensor = M.GeckoAsyncSpaMan.RadioChannelSensor(man)
    return st, has_spa, spa_connected, has_facade, sensors


def enabled(event, st, has_spa, has_facade, sensors):
    from geckolib.spa_state import GeckoSpaState as S
    from geckolib.spa_events import GeckoSpaEvent as E
    n = event.name
    if n.startswith("CLIENT_") or n in ("SPA_MAN_ENTER", "SPA_MAN_EXIT"):
        return n in ("SPA_MAN_ENTER", "SPA_MAN_EXIT")
    if event == E.LOCATING_DISCOVERED_SPA:
        return st == S.LOCATING_SPAS
    if n.startswith("CONNECTION_GOT_") or event in (E.CONNECTION_INITIAL_DATA_BLOCK_REQUEST, E.CONNECTION_SPA_COMPLETE,
                                                    E.CONNECTION_CANNOT_FIND_LOG_VERSION, E.CONNECTION_CANNOT_FIND_CONFIG_VERSION,
                                                    E.CONNECTION_CANNOT_FIND_SPA_PACK):
        return st == S.CONNECTING and has_spa
    if event == E.CONNECTION_PROTOCOL_RETRY_COUNT_EXCEEDED:
        return has_spa
    if n.startswith("RUNNING_") or n.startswith("ERROR_"):
        if event == E.RUNNING_SPA_PACK_REFRESHED:
            return sensors
        if event == E.RUNNING_SPA_WATER_CARE_ERROR:
            return has_spa and has_facade
        return has_spa
    return True


def step(sx):
    from geckolib.spa_state import GeckoSpaState as S
    from geckolib.spa_events import GeckoSpaEvent as E
    rec = []
    man = make_manager(rec)
    st, has_spa, spa_connected, has_facade, sensors = _prestate(sx, man, rec)
    events = list(E)
    ev = events[sx.choice("event", len(events))]
    sx.assume(enabled(ev, st, has_spa, has_facade, sensors))
    facade0 = man._facade
    drive(man._handle_event(ev))
    nxt = man.spa_state
    sx.observe("next", nxt.name)
    exp = expected_next(st, ev, has_facade)
    sx.check(nxt == exp, "lc.transition-follows-the-table", lambda: f"{st.name} --{ev.name}--> {nxt.name}, expected {exp.name}")
    # I0 is re-established
    sx.check(man._facade is None or (man._spa is not None and man._spa.is_connected), "lc.facade-only-with-connected-spa")
    # I1
    sx.check(nxt != S.CONNECTED or (man._facade is not None and man._spa is not None and man._spa.is_connected),
             "lc.connected-only-with-live-facade-on-connected-spa")
    delivered = [r[0] for r in rec]
    ready = delivered.count(E.CLIENT_FACADE_IS_READY)
    tear = delivered.count(E.CLIENT_FACADE_TEARDOWN)
    entered = (nxt == S.CONNECTED and st != S.CONNECTED) or (ev == E.CONNECTION_FINISHED and has_facade)
    sx.check(ready == (1 if entered else 0), "lc.facade-ready-exactly-when-connected-is-entered", lambda: f"{ready} {st.name}->{nxt.name}")
    sx.check(tear <= 1 and (tear == 0 or st == S.CONNECTED), "lc.teardown-at-most-once-and-only-from-connected",
             lambda: f"{tear} from {st.name}")
    for (e, s_at, f_at, text) in rec:
        if e == E.CLIENT_FACADE_TEARDOWN:
            sx.check(f_at is not None, "lc.teardown-only-while-a-facade-exists", lambda: f"{st.name} --{ev.name}")
            # the guard "state is CONNECTED" is only atomic if the state is left before the first await
            sx.check(s_at != S.CONNECTED, "lc.state-left-connected-before-teardown-is-announced", lambda: f"--{ev.name}")
        if e == E.CLIENT_FACADE_IS_READY:
            sx.check(s_at == S.CONNECTED and f_at is not None, "lc.connected-before-ready-is-announced")
        sx.check(text == _text(s_at), "lc.status-text-matches-state-at-every-delivery", lambda: f"{text} vs {s_at}")
    if sensors and ev == E.RUNNING_SPA_PACK_REFRESHED:
        from sx.core import Ite
        sig = man._spa.signal
        sx.check(man._radio_sensor.state == Ite(sig > 100, 100, sig), "lc.signal-clamped")
        sx.check(man._channel_sensor.state == man._spa.channel, "lc.channel-copied")
    if ev == E.RUNNING_SPA_WATER_CARE_ERROR:
        sx.check(facade0.modes == [3], "lc.watercare-error-refreshes-mode")


def reset(sx):
    from geckolib.spa_state import GeckoSpaState as S
    from geckolib.spa_events import GeckoSpaEvent as E
    rec = []
    man = make_manager(rec)
    st, has_spa, spa_connected, has_facade, sensors = _prestate(sx, man, rec)
    f0, s0 = man._facade, man._spa
    via = sx.choice("via", 3)
    if via == 0:
        drive(man.async_reset())
    elif via == 1:
        drive(man.async_set_spa_info("10.0.0.9", "SPAxx", "Other"))
    else:
        M = _mod()
        drive(M.GeckoAsyncSpaMan.ReconnectButton(man).async_press())
    sx.check(man.spa_state == S.IDLE, "lc.reset-lands-in-idle", lambda: man.spa_state.name)
    sx.check(man.facade is None and man._spa is None and man.spa_descriptors is None, "lc.reset-drops-facade-spa-descriptors")
    if f0 is not None:
        sx.check(f0.disconnected == 1, "lc.reset-disconnects-the-facade-once")
    if s0 is not None:
        sx.check(not s0.is_connected, "lc.reset-disconnects-the-spa")
    tear = [r for r in rec if r[0] == E.CLIENT_FACADE_TEARDOWN]
    sx.check(len(tear) <= 1 and (not tear or st == S.CONNECTED), "lc.teardown-at-most-once-and-only-from-connected")
    for (e, s_at, f_at, text) in tear:
        sx.check(f_at is not None, "lc.teardown-only-while-a-facade-exists", lambda: f"reset from {st.name}")
    for (e, s_at, f_at, text) in rec:
        sx.check(text == _text(s_at), "lc.status-text-matches-state-at-every-delivery")


DEEP = [False]


def concurrent_pair(sx):
    """two events raised from different tasks while the client handler is suspended (it yields once per
    delivery): facade-teardown is still announced at most once for the one facade-ready"""
    import asyncio
    from sx.vloop import VLoop
    from geckolib.spa_state import GeckoSpaState as S
    from geckolib.spa_events import GeckoSpaEvent as E
    M = _mod()
    rec = []

    class Man(M.GeckoAsyncSpaMan):
        async def handle_event(self, event, **kwargs):
            rec.append((event, self.spa_state, self.facade))
            await asyncio.sleep(0)          # the client handler suspends
            await asyncio.sleep(0)

    man = Man("uuid", spa_identifier="SPA01:02:03:04:05:06", spa_name="My Spa")
    # quick: from CONNECTED; thorough: from every state a connected spa with a facade can be in
    starts = [S.CONNECTED] if not DEEP[0] else [S.CONNECTED, S.ERROR_PING_MISSED, S.ERROR_RF_FAULT, S.ERROR_NEEDS_ATTENTION]
    st0 = starts[sx.choice("start_state", len(starts))]
    man._spa_state = st0
    man._spa = real_spa(man, True)
    man._facade = FakeFacade()
    man._status_sensor = M.GeckoAsyncSpaMan.StatusSensor(man)
    man._radio_sensor = M.GeckoAsyncSpaMan.RadioConnectionSensor(man)
    man._channel_sensor = M.GeckoAsyncSpaMan.RadioChannelSensor(man)
    cands = [E.RUNNING_PING_NO_RESPONSE, E.ERROR_RF_ERROR, E.RUNNING_SPA_DISCONNECTED, E.RUNNING_PING_RECEIVED,
             E.RUNNING_PING_MISSED, E.ERROR_PROTOCOL_RETRY_COUNT_EXCEEDED, E.ERROR_TOO_MANY_RF_ERRORS,
             E.RUNNING_SPA_PACK_REFRESHED]
    e1 = cands[sx.choice("first", len(cands))]
    e2 = cands[sx.choice("second", len(cands))]
    gap = sx.choice("second_starts_after_steps", 3 if not DEEP[0] else 6)
    loop = VLoop()

    async def second():
        for _ in range(gap):
            await asyncio.sleep(0)
        # runtime events come from the spa's own tasks, which a completed reset has cancelled with the spa
        if man._spa is not None:
            await man._handle_event(e2)

    async def main():
        await asyncio.gather(asyncio.ensure_future(man._handle_event(e1)), asyncio.ensure_future(second()))
    loop.run_until_complete(main(), max_time=10.0)
    tear = [r for r in rec if r[0] == E.CLIENT_FACADE_TEARDOWN]
    sx.observe("teardowns", len(tear))
    sx.check(len(tear) <= (1 if st0 == S.CONNECTED else 0), "lc.concurrent-events-announce-teardown-at-most-once",
             lambda: f"{st0.name}: {e1.name} || {e2.name}: {len(tear)}")
    for r in tear:
        sx.check(r[2] is not None, "lc.teardown-only-while-a-facade-exists")
    sx.check(man.spa_state != S.CONNECTED or (man._facade is not None and man._spa is not None and man._spa.is_connected),
             "lc.connected-only-with-live-facade-on-connected-spa")
    loop.cancel_all()


def reset_from_spa_task(sx):
    """the automatic reset (a ping answer arriving in an error state) runs inside the spa's own "SPA:" task, which
    the reset itself cancels; with a client handler that yields, the reset must still complete"""
    import asyncio
    from sx.vloop import VLoop
    from geckolib.spa_state import GeckoSpaState as S
    from geckolib.spa_events import GeckoSpaEvent as E
    M = _mod()
    rec = []

    class Man(M.GeckoAsyncSpaMan):
        async def handle_event(self, event, **kwargs):
            rec.append((event, self.spa_state, self.facade))
            await asyncio.sleep(0)

    man = Man("uuid", spa_identifier="SPA01:02:03:04:05:06", spa_name="My Spa")
    st = [S.ERROR_PING_MISSED, S.ERROR_RF_FAULT, S.ERROR_NEEDS_ATTENTION][sx.choice("error_state", 3)]
    man._spa_state = st
    man._spa = real_spa(man, True)
    man._facade = FakeFacade()
    man._status_sensor = M.GeckoAsyncSpaMan.StatusSensor(man)
    loop = VLoop()

    async def ping_loop_body():
        # what GeckoAsyncSpa._ping_loop does when a ping is answered
        await man._spa._event_handler(E.RUNNING_PING_RECEIVED)

    async def main():
        man.add_task(ping_loop_body(), "Ping loop", "SPA")
        for _ in range(20):
            await asyncio.sleep(0)
    loop.run_until_complete(main(), max_time=10.0)
    sx.check(man.spa_state == S.IDLE, "lc.reset-lands-in-idle", lambda: man.spa_state.name)
    sx.check(man.facade is None and man._spa is None and man.spa_descriptors is None, "lc.reset-drops-facade-spa-descriptors",
             lambda: f"facade={man.facade} spa={man._spa}")
    loop.cancel_all()


def locate(sx):
    from geckolib.spa_state import GeckoSpaState as S
    from geckolib.spa_events import GeckoSpaEvent as E
    M = _mod()
    rec = []
    man = make_manager(rec)
    outcome = sx.choice("outcome", 3)

    class Loc:
        def __init__(self, taskman, handler, **kw):
            self.spas = None
            self.handler = handler

        async def discover(self):
            if outcome == 2:
                raise OSError("network unreachable")
            self.spas = [] if outcome == 0 else ["descriptor"]
            if self.spas:
                await self.handler(E.LOCATING_DISCOVERED_SPA, spa_descriptor=self.spas[0])
    saved = M.GeckoAsyncLocator
    M.GeckoAsyncLocator = Loc
    raised = False
    try:
        try:
            r = drive(man.async_locate_spas())
        except OSError:
            raised = True
    finally:
        M.GeckoAsyncLocator = saved
    names = [r[0] for r in rec if not r[0].name.startswith("CLIENT_")]
    sx.observe("events", [e.name for e in names])
    sx.check(names[0] == E.LOCATING_STARTED and names[-1] == E.LOCATING_FINISHED, "lc.locate-phase-closed-by-finished",
             lambda: str(names))
    sx.check(names.count(E.LOCATING_STARTED) == 1 and names.count(E.LOCATING_FINISHED) == 1, "lc.locate-bracket-once")
    sx.check(raised == (outcome == 2), "lc.locate-propagates-failure")
    sx.check(man.spa_state == S.LOCATED_SPAS, "lc.locate-ends-in-located")
    if not raised:
        sx.check(man.spa_descriptors == ([] if outcome == 0 else ["descriptor"]), "lc.locate-publishes-descriptors")


CHAIN = ["CONNECTION_GOT_FIRMWARE_VERSION", "CONNECTION_GOT_CHANNEL", "CONNECTION_GOT_CONFIG_FILES",
         "CONNECTION_INITIAL_DATA_BLOCK_REQUEST"]


def connect(sx):
    from geckolib.spa_state import GeckoSpaState as S
    from geckolib.spa_events import GeckoSpaEvent as E
    M = _mod()
    rec = []
    man = make_manager(rec)
    depth = sx.choice("chain_depth", len(CHAIN) + 1)
    ending = sx.choice("ending", 5)          # 0 complete, 1 retry exceeded, 2 cannot find pack, 3 raises, 4 cancelled
    facade_raises = bool(sx.choice("facade_constructor_raises", 2))
    made = []

    class Spa:
        signal, channel, last_ping_at = 50, 3, None

        def __init__(self, cid, desc, taskman, handler):
            self.handler = handler
            self.is_connected = False
            made.append(self)

        def watch(self, cb):
            pass

        async def connect(self):
            for name in CHAIN[:depth]:
                await self.handler(E[name])
            if ending == 0 and depth == len(CHAIN):
                self.is_connected = True
                await self.handler(E.CONNECTION_SPA_COMPLETE)
            elif ending == 1:
                await self.handler(E.CONNECTION_PROTOCOL_RETRY_COUNT_EXCEEDED)
            elif ending == 2:
                await self.handler(E.CONNECTION_CANNOT_FIND_SPA_PACK, pack_module_name="x")
            elif ending == 3:
                raise OSError("socket error")
            elif ending == 4:
                import asyncio
                raise asyncio.CancelledError()      # the caller's deadline / context exit cancels the connect

    class Fac(FakeFacade):
        def __init__(self, spa, taskman):
            if facade_raises:
                raise KeyError("TempUnits")
            super().__init__()

    class D:
        name = "My Spa"
    sv = (M.GeckoAsyncSpa, M.GeckoAsyncFacade)
    M.GeckoAsyncSpa, M.GeckoAsyncFacade = Spa, Fac
    raised = None
    try:
        import asyncio
        try:
            r = drive(man.async_connect_to_spa(D()))
        except (OSError, KeyError, asyncio.CancelledError) as e:
            raised = e
    finally:
        M.GeckoAsyncSpa, M.GeckoAsyncFacade = sv
    names = [x[0] for x in rec if not x[0].name.startswith("CLIENT_HAS")]
    sx.observe("events", [e.name for e in names])
    core = [e for e in names if e.name.startswith("CONNECTION_")]
    sx.check(core and core[0] == E.CONNECTION_STARTED and core[-1] == E.CONNECTION_FINISHED, "lc.connect-phase-closed-by-finished",
             lambda: str(core))
    sx.check(core.count(E.CONNECTION_STARTED) == 1 and core.count(E.CONNECTION_FINISHED) == 1, "lc.connect-bracket-once")
    completed = ending == 0 and depth == len(CHAIN)
    built = completed and not facade_raises
    sx.check((man.facade is not None) == built, "lc.facade-built-iff-spa-ready")
    sx.check((man.spa_state == S.CONNECTED) == built, "lc.connected-iff-facade-built", lambda: man.spa_state.name)
    sx.check(names.count(E.CLIENT_FACADE_IS_READY) == (1 if built else 0), "lc.facade-ready-exactly-when-connected-is-entered")
    sx.check(names.count(E.CLIENT_FACADE_TEARDOWN) == 0, "lc.no-teardown-during-connect")
    sx.check((raised is not None) == (ending in (3, 4) or (completed and facade_raises)), "lc.connect-propagates-failure")
    for (e, s_at, f_at, text) in rec:
        sx.check(text == _text(s_at), "lc.status-text-matches-state-at-every-delivery")
    if built:
        i = names.index(E.CLIENT_FACADE_IS_READY)
        sx.check(rec[[x[0] for x in rec].index(E.CLIENT_FACADE_IS_READY)][2] is man.facade, "lc.facade-present-when-ready-is-announced")


def units(tier):
    DEEP[0] = tier != "quick"
    n = len(states())
    for i in range(n):
        yield Unit(f"step.{states()[i].name}", step, presets={"state": i}, max_paths=200000)
        yield Unit(f"reset.{states()[i].name}", reset, presets={"state": i}, max_paths=50000)
    yield Unit("concurrent-pair", concurrent_pair)
    yield Unit("reset-from-spa-task", reset_from_spa_task)
    yield Unit("locate-bracket", locate)
    yield Unit("connect-bracket", connect)
