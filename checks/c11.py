"""C11 - every shipped pack table yields a facade whose read-only API is total.

(1) construction of the real GeckoAsyncFacade for every one of the 895 shipped
    platform x cfg x log combinations (concrete loop, maximal wiring);
(2) for one representative of every facade-relevant table signature: the facade is
    built on a maximally wired block, then the block is replaced by a fully symbolic
    one and every read-only member of the facade and of its devices is evaluated,
    one member per exploration (path counts add, they do not multiply);
(3) watercare with a symbolic mode byte / None, reminders with symbolic records,
    the error sensor with a sliding window of symbolic error flags.
"""
from __future__ import annotations

from .common import Unit, combos
from . import facade_env as fe, refmodel, c12

PROPERTY = "C11"
FUNCTIONS = ["GeckoAsyncFacade.__init__ and every read-only property", "GeckoWaterHeater (all properties, __str__, monitor)",
             "GeckoPump/GeckoSwitch/GeckoBlower/GeckoLight (is_on, mode(s), __str__, monitor)",
             "GeckoSensor/GeckoBinarySensor/GeckoErrorSensor (state, is_on, update_state, __repr__)",
             "GeckoWaterCare (mode, modes, __str__, monitor, change_watercare_mode)",
             "GeckoReminders (change_reminders, reminders, get_reminder, Reminder.__str__)", "GeckoKeypad.__str__",
             "GeckoStructAccessor._get_value (enum -> 'Unknown')", "GeckoTempStructAccessor._get_value"]


def bounds(tier):
    return {"construction": "all 895 combinations, concrete block with every device wired that the tables allow",
            "members": "fully symbolic 1024-byte block, one member per exploration, per representative of every "
                       "facade-relevant table signature" + (" of one cfg x log pair per platform" if tier == "quick" else ""),
            "error sensor": "2 adjacent error flags symbolic at a time (sliding window), the others clear",
            "watercare": "mode byte 0..255 symbolic, and None", "reminders": "<= 3 records, type 0..6, days -32768..32767"}


ASSUMPTIONS = [
    "formatting a float with a valid format spec never raises (symbolic floats render as an opaque placeholder)",
    "temperatures are compared through the ratio abstraction justified by C14's monotone lemma",
    "construction with symbolic output items is explored by C12 (k outputs symbolic); here the wiring is concrete",
]
SITES = ["ctor.*", "mem.*", "wc.*", "rem.*", "err.*"]


def _max_wiring(acc, outs, devices):
    """greedy concrete wiring: give every device an output label that starts with its key"""
    assign = {}
    free = list(outs)
    for d in devices:
        for o in list(free):
            labs = acc[o].items
            hit = [i for i, s in enumerate(labs) if s.startswith(d) and s != "NA"]
            if hit:
                assign[o] = hit[0]
                free.remove(o)
                break
    for o in free:
        labs = acc[o].items
        assign[o] = labs.index("NA") if "NA" in labs else 0
    return assign


def build(plat, c, l):
    """facade on a concrete, maximally wired block"""
    from geckolib.automation.async_facade import GeckoAsyncFacade
    spa, tm = fe.async_spa(plat, c, l, b"\x00" * 1024)
    items = [0] * 1024
    for o, idx in _max_wiring(spa.accessors, spa.struct.all_outputs, spa.struct.all_devices).items():
        fe.set_item(items, spa.accessors[o], idx)
    spa.struct.set_status_block(bytes(items))
    return GeckoAsyncFacade(spa, tm), spa


def construct_all(plat):
    def scenario(sx):
        n = 0
        for p, c, l in combos():
            if p != plat:
                continue
            n += 1
            try:
                f, spa = build(p, c, l)
                ok = True
            except Exception as e:  # noqa
                ok = False
                why = repr(e)
            sx.check(ok, f"ctor.{p}-{c}-{l}", lambda: why)
        sx.observe("combos", n)
        sx.check(n > 0 or plat == "mas-ibc-16k", "ctor.platform-has-combinations")
    return scenario


def members_of(f):
    """[(name, thunk)] - every read-only member of the facade and of its devices."""
    out = []

    def add(name, fn):
        out.append((name, fn))
    for a in ("name", "unique_id", "spa", "devices", "all_user_devices", "all_automation_devices", "pumps", "blowers",
              "lights", "sensors", "binary_sensors", "eco_mode", "error_sensor", "reminders_manager", "water_heater",
              "water_care", "keypad", "all_config_change_devices"):
        add(f"facade.{a}", lambda a=a: getattr(f, a))
    add("facade.get_device(unknown)", lambda: f.get_device("no-such-key"))
    add("facade.get_device(each)", lambda: [f.get_device(k) for k in f.devices])
    h = f.water_heater
    for a in ("is_present", "target_temperature", "real_target_temperature", "min_temp", "max_temp",
              "current_temperature", "temperature_unit", "current_operation", "monitor", "name", "key", "unique_id",
              "parent_name", "parent_unique_id", "has_observers"):
        add(f"heater.{a}", lambda a=a: getattr(h, a))
    add("heater.str", lambda: h.__str__())
    add("heater.repr", lambda: h.__repr__())
    add("heater.format_temperature", lambda: h.format_temperature(h.current_temperature))
    for i, p in enumerate(f.pumps):
        for a in ("is_on", "modes", "mode", "monitor", "name", "key", "unique_id", "device_class"):
            add(f"pump{i}.{a}", lambda p=p, a=a: getattr(p, a))
        add(f"pump{i}.str", lambda p=p: p.__str__())
        add(f"pump{i}.repr", lambda p=p: p.__repr__())
    switches = [(f"blower{i}", b) for i, b in enumerate(f.blowers)] + [(f"light{i}", x) for i, x in enumerate(f.lights)]
    if f.eco_mode is not None:
        switches.append(("eco", f.eco_mode))
    for nm, s in switches:
        for a in ("is_on", "monitor", "name", "key", "unique_id", "device_class"):
            add(f"{nm}.{a}", lambda s=s, a=a: getattr(s, a))
        add(f"{nm}.str", lambda s=s: s.__str__())
        add(f"{nm}.state_sensor", lambda s=s: s.state_sensor().state)
    for i, s in enumerate(list(f.sensors) + list(f.binary_sensors)):
        for a in ("state", "unit_of_measurement", "device_class", "monitor", "name", "key", "unique_id", "accessor"):
            add(f"sensor{i}.{a}", lambda s=s, a=a: getattr(s, a))
        add(f"sensor{i}.repr", lambda s=s: s.__repr__())
        if hasattr(type(s), "is_on"):
            add(f"sensor{i}.is_on", lambda s=s: s.is_on)
    e = f.error_sensor
    for a in ("state", "unit_of_measurement", "device_class", "name", "key"):
        add(f"error.{a}", lambda a=a: getattr(e, a))
    add("error.repr", lambda: e.__repr__())
    add("keypad.str", lambda: f.keypad.__str__())
    return out


def _facade_key(plat, c, l):
    P, C, L = fe.tables(plat, c, l)

    class S:
        status_block = b"\x00" * 1024
        accessors = {}
    cc, ll = C(S()), L(S())
    acc = dict(cc.accessors, **ll.accessors)
    keys = set(cc.output_keys) | set(ll.user_demand_keys) | set(ll.error_keys) | {
        "TempUnits", "SetpointG", "DisplayedTempG", "RealSetPointG", "Heating", "CoolingDown", "P1", "P2", "P3", "P4",
        "P5", "BL", "Waterfall", "UdLi", "EconActive", "CP", "PumpRun", "O3", "SwmActive", "Clean", "Purge", "SwmRisk"}

    def sig(a):
        return (type(a).__name__, a.bitpos is None, tuple(a.items) if a.items else None, a.length)
    return (tuple(sorted((k, sig(acc[k])) for k in keys if k in acc)), tuple(ll.all_device_keys),
            tuple(ll.user_demand_keys), tuple(ll.error_keys), tuple(cc.output_keys))


_REPS = {}


def representatives(tier):
    if tier not in _REPS:
        seen = {}
        allc = combos()
        if tier == "quick":
            last = {}
            for p, c, l in allc:
                last[p] = (p, c, l)
            allc = sorted(last.values())
        for p, c, l in allc:
            try:
                k = _facade_key(p, c, l)
                build(p, c, l)
            except Exception:  # noqa: unbuildable combinations are reported by the ctor.* units
                continue
            seen.setdefault(k, (p, c, l))
        _REPS[tier] = sorted(seen.values())
    return _REPS[tier]


def member_unit(plat, c, l, lo, hi):
    def scenario(sx):
        f, spa = build(plat, c, l)
        ms = members_of(f)[lo:hi]
        i = sx.choice("member", len(ms))
        name, fn = ms[i]
        spa.struct.set_status_block(sx.block("block", 1024))
        try:
            v = fn()
            if hasattr(v, "__iter__") and not isinstance(v, (str, bytes)):
                list(v)
            ok = True
            why = ""
        except Exception as e:  # noqa
            ok = False
            why = repr(e)
        sx.note("members", [n for n, _ in members_of(f)])
        sx.check(ok, f"mem.total.{name}", lambda: why)
    return scenario


def unknown_enum(plat, c, l):
    """stored values outside a label list read as 'Unknown' (every enum the facade exposes)"""
    def scenario(sx):
        f, spa = build(plat, c, l)
        blk = sx.block("block", 1024)
        spa.struct.set_status_block(blk)
        accs = []
        for p in f.pumps:
            accs.append(p._state_sensor.accessor)
        for s in list(f.blowers) + list(f.lights):
            accs.append(s._accessor)
        for s in list(f.sensors) + list(f.binary_sensors):
            accs.append(s.accessor)
        accs = [a for a in accs if a.type == "Enum"]
        if not accs:
            sx.check(True, "mem.unknown-label")
            return
        a = accs[sx.choice("which", len(accs))]
        rec = refmodel.record_of(a)
        r = refmodel.raw(rec, blk)
        v = a.value
        inside = r < len(rec["labels"])
        if isinstance(inside, bool):
            inr = inside
        else:
            inr = bool(inside)
        if inr:
            sx.check(v == rec["labels"][int(r)], "mem.label-inside-list")
        else:
            sx.check(v == "Unknown", "mem.unknown-label", lambda: f"{v!r}")
    return scenario


def watercare(sx):
    from geckolib.automation.watercare import GeckoWaterCare
    from geckolib.const import GeckoConstants

    class F:
        unique_id, name, _spa = "u", "n", None
    wc = GeckoWaterCare(F())
    seen = []
    wc.watch(lambda *a: seen.append(a))
    via = sx.choice("none", 3)
    if via == 1:
        mode = None
    else:
        mode = sx.int_("mode", 0, 255)
        try:
            if via == 0:
                wc.change_watercare_mode(mode)
            else:
                # the threaded client's path: the GETWC reply (real handler, real decode) reaches the reply callback
                import geckolib.driver.protocol as P
                from sx.loader import STRUCT_SHIM
                h = P.GeckoWatercareProtocolHandler()
                h.handle(b"WCGET" + STRUCT_SHIM.pack(">B", mode), None)
                wc._water_care_handler = h
                wc._on_watercare(h, None)
            ok, why = True, ""
        except Exception as e:  # noqa
            ok, why = False, repr(e)
        sx.check(ok, "wc.total.change_watercare_mode" if via == 0 else "wc.total.reply-callback", lambda: why)
        sx.check(len(seen) == 1, "wc.change-notified-once")
        if via == 2:
            sx.check(wc._water_care_handler is None, "wc.reply-callback-releases-the-pending-request")
    for name, fn in (("mode", lambda: wc.mode), ("modes", lambda: wc.modes), ("str", lambda: wc.__str__()),
                     ("monitor", lambda: wc.monitor), ("repr", lambda: wc.__repr__())):
        try:
            v = fn()
            ok, why = True, ""
        except Exception as e:  # noqa
            ok, why = False, repr(e)
        sx.check(ok, f"wc.total.{name}", lambda: why)
    if mode is not None:
        s = wc.__str__()
        if bool(mode < 5):
            sx.check(GeckoConstants.WATERCARE_MODE_STRING[int(mode)] in s, "wc.known-mode-text")     # (wording is free)
        else:
            sx.check("nknown" in _text(s), "wc.unknown-mode-text")


def _text(s):
    """literal head of a (possibly symbolic) formatted string"""
    return s if isinstance(s, str) else (s.parts[0] if s.parts and isinstance(s.parts[0], str) else "")


def reminders(sx):
    from geckolib.automation.reminders import GeckoReminders
    from geckolib.driver import GeckoReminderType

    class F:
        unique_id, name, _spa = "u", "n", None
    rm = GeckoReminders(F())
    n = sx.choice("records", 4)
    recs = []
    for i in range(n):
        t = sx.choice(f"type{i}", 7)
        recs.append((GeckoReminderType(t), sx.int_(f"days{i}", -32768, 32767)))
    try:
        rm.change_reminders(recs)
        rs = rm.reminders
        texts = [r.__str__() for r in rs]
        [r.description for r in rs]
        [r.days for r in rs]
        for t in GeckoReminderType:
            rm.get_reminder(t)
        rm.__str__()
        rm.last_update
        ok, why = True, ""
    except Exception as e:  # noqa
        ok, why = False, repr(e)
    sx.check(ok, "rem.total", lambda: why)
    if ok:
        exp = [(t, d) for (t, d) in recs if t != GeckoReminderType.INVALID]
        sx.check(len(rs) == len(exp), "rem.invalid-filtered")
        for r, (t, d) in zip(rs, exp):
            sx.check((r.type is t) & (r.days == d), "rem.record-kept")


def error_sensor(plat, c, l):
    def scenario(sx):
        f, spa = build(plat, c, l)
        from geckolib.driver import GeckoBoolStructAccessor
        keys = [k for k in spa.struct.error_keys if k in spa.accessors]
        if len(keys) < 2:
            sx.check(True, "err.total")
            return
        w = sx.choice("window", len(keys) - 1)
        items = list(spa.struct.status_block)
        for k in keys:
            fe.set_item(items, spa.accessors[k], 0)
        bits = []
        for k in keys[w:w + 2]:
            a = spa.accessors[k]
            rec = refmodel.record_of(a)
            if isinstance(a, GeckoBoolStructAccessor):
                b = sx.int_(f"flag_{k}", 0, 1)
                bits.append((k, b))
            else:
                # an error key that is not a flag (error-id bytes): any value
                b = sx.int_(f"value_{k}", 0, (rec["mask"] if rec["bitpos"] is not None else (1 << (8 * rec["size"])) - 1))
            fe.set_item(items, a, b)
        spa.struct.set_status_block(fe.block_from_items(items))
        try:
            f.error_sensor.update_state()
            st = f.error_sensor.state
            ok, why = True, ""
        except Exception as e:  # noqa
            ok, why = False, repr(e)
        sx.check(ok, "err.total", lambda: why)
        if ok:
            on = [k for k, b in bits if bool(b == 1)]
            exp = ", ".join(k for k in spa.struct.accessors if k in on) if on else "None"
            sx.observe("state", st)
            sx.check(st == exp, "err.text", lambda: f"{st!r} vs {exp!r}")
    return scenario


def _representative_fails(plat, c, l, why):
    def scenario(sx):
        try:
            f, spa = build(plat, c, l)
            members_of(f)
            ok = True
        except Exception:  # noqa
            ok = False
        sx.check(ok, "mem.representative-facade-builds", lambda: why)
    return scenario


def units(tier):
    from .common import platforms
    for p in platforms():
        yield Unit(f"construct.{p}", construct_all(p), validate=False)
    for plat, c, l in representatives(tier):
        try:
            f, spa = build(plat, c, l)
            n = len(members_of(f))
        except Exception as e:  # noqa
            yield Unit(f"members.{plat}-{c}-{l}.0", _representative_fails(plat, c, l, repr(e)))
            continue
        step = 24
        for lo in range(0, n, step):
            yield Unit(f"members.{plat}-{c}-{l}.{lo}", member_unit(plat, c, l, lo, lo + step), ratio_floats=True,
                       max_paths=50000)
        yield Unit(f"unknown.{plat}-{c}-{l}", unknown_enum(plat, c, l), max_fanout=400)
        yield Unit(f"errors.{plat}-{c}-{l}", error_sensor(plat, c, l))
    yield Unit("watercare", watercare)
    yield Unit("reminders", reminders, max_paths=100000)
