"""C16 - sequence numbers: requests cycle 1..191, commands 192..255, never 0.

One inductive step of both real counter implementations from an arbitrary
in-range pre-state (=> every history), plus the sequence byte that every real
request factory of the async and the threaded client puts on the wire, with
symbolic counters.
"""
from __future__ import annotations

import threading

from .common import Unit, FakeTransport, content_offset, drive, SRC_ID, CLI_ID, DEST

PROPERTY = "C16"
FUNCTIONS = [
    "GeckoAsyncUdpProtocol.get_and_increment_sequence_counter",
    "GeckoUdpSocket.get_and_increment_sequence_counter",
    "GeckoAsyncSpa._get_version_handler_func/_get_channel_handler_func/_get_config_file_handler_func/"
    "_get_status_block_handler_func/_get_watercare_handler_func/_get_reminders_handler_func",
    "GeckoAsyncSpa.async_press/_on_async_set_value/async_set_watercare (request factories)",
    "GeckoSpa._on_set_value/press/refresh/_on_version_received/_on_channel_received/_on_config_received",
    "GeckoPartialStatusBlockProtocolHandler.handle / GeckoAsyncPartialStatusBlockProtocolHandler.async_handle (STATQ)",
    "GeckoWaterCare.set_mode/update, GeckoReminders.update (threaded facade)",
    "GeckoPacketProtocolHandler.send_bytes and every request() constructor",
    "GeckoAsyncUdpProtocol.get (retry loop; numbers handed out while replies are lost)",
]
BOUNDS = {"counter pre-state": "protocol 0..191, command 191..255 (the invariant; initial state included)",
          "histories": "unbounded by induction over one step", "threads": "lock discipline only (see assumptions)"}
ASSUMPTIONS = [
    "Python int == 32-bit bit-vector with discharged no-overflow obligations",
    "threaded socket: every counter read/write happens with the socket lock held (lock discipline), and a second "
    "thread's complete call is run at every lock boundary of the first one's call (stepped two-thread interleaving at "
    "lock granularity); bytecode-level preemption inside a critical section is not encoded",
    "the inductive invariant (protocol in 0..191, command in 191..255) is re-established by every step",
]
SITES = ["ctr.*", "wire.*", "lock.*"]


def _succ_ok(prev, res, lo_wrap, hi):
    """res is the successor of prev in the cycle lo_wrap+1..hi (prev==lo_wrap: nothing handed out yet)."""
    from sx.core import Ite
    return res == Ite(prev == hi, lo_wrap + 1, prev + 1)


def _counter_step(make):
    def scenario(sx):
        obj = make()
        p = sx.int_("protocol_counter", 0, 191)
        c = sx.int_("command_counter", 191, 255)
        obj._sequence_counter_protocol = p
        obj._sequence_counter_command = c
        k = sx.choice("command", 2) == 1
        r = obj.get_and_increment_sequence_counter(k)
        sx.observe("result", r)
        p2, c2 = obj._sequence_counter_protocol, obj._sequence_counter_command
        sx.observe("post", (p2, c2))
        if k:
            sx.check((r >= 192) & (r <= 255), "ctr.command.range")
            sx.check(_succ_ok(c, r, 191, 255), "ctr.command.successor")
            sx.check(p2 == p, "ctr.command.other-unchanged")
            sx.check(c2 == r, "ctr.command.state")
        else:
            sx.check((r >= 1) & (r <= 191), "ctr.protocol.range")
            sx.check(_succ_ok(p, r, 0, 191), "ctr.protocol.successor")
            sx.check(c2 == c, "ctr.protocol.other-unchanged")
            sx.check(p2 == r, "ctr.protocol.state")
        sx.check((p2 >= 0) & (p2 <= 191) & (c2 >= 191) & (c2 <= 255), "ctr.invariant")
    return scenario


def _mk_async_proto():
    from geckolib.driver import GeckoAsyncUdpProtocol
    return GeckoAsyncUdpProtocol(None, DEST)


def _mk_socket():
    from geckolib.driver import GeckoUdpSocket
    return GeckoUdpSocket()


class _MonLock:
    """Instrumented lock: records whether it is held (single-threaded stepping)."""

    def __init__(self):
        self.held = 0
        self.acquisitions = 0

    def __enter__(self):
        assert self.held == 0, "re-entrant acquisition of a non-reentrant lock"
        self.held += 1
        self.acquisitions += 1

    def __exit__(self, *a):
        self.held -= 1

    def acquire(self, *a, **k):
        self.__enter__()
        return True

    def release(self):
        self.__exit__()


def lock_discipline(sx):
    """Every read/write of either counter of the threaded socket happens under the lock."""
    from geckolib.driver import GeckoUdpSocket
    log = []

    class Mon(GeckoUdpSocket):
        pass

    def mk(attr):
        slot = "_mon" + attr

        def get(self):
            log.append(("r", attr, getattr(self, "_lock").held if isinstance(self._lock, _MonLock) else None))
            return self.__dict__[slot]

        def set_(self, v):
            log.append(("w", attr, getattr(self, "_lock").held if isinstance(self._lock, _MonLock) else None))
            self.__dict__[slot] = v
        return property(get, set_)

    Mon._sequence_counter_protocol = mk("_sequence_counter_protocol")
    Mon._sequence_counter_command = mk("_sequence_counter_command")
    s = Mon()
    s._lock = _MonLock()
    del log[:]
    s._sequence_counter_protocol = sx.int_("protocol_counter", 0, 191)
    s._sequence_counter_command = sx.int_("command_counter", 191, 255)
    del log[:]
    k = sx.choice("command", 2) == 1
    r = s.get_and_increment_sequence_counter(k)
    sx.observe("r", r)
    sx.observe("log", [(a, b, c) for a, b, c in log])
    sx.check(len(log) >= 2, "lock.accesses-seen")
    sx.check(all(h == 1 for (_, _, h) in log), "lock.held-at-every-access", lambda: str(log))
    sx.check(s._lock.held == 0, "lock.released")
    sx.check(isinstance(_mk_socket()._lock, type(threading.Lock())), "lock.is-a-real-lock")


# ---------------------------------------------------------------------------
# wire: sequence byte of every request kind


def _seq_byte(data, src=CLI_ID, dst=SRC_ID):
    off = content_offset(src, dst)
    return data[off:off + 5], data[off + 5]


PROTOCOL_VERBS = {b"AVERS", b"CURCH", b"SFILE", b"STATU", b"GETWC", b"SETWC", b"REQRM", b"STATQ"}
COMMAND_VERBS = {b"SPACK"}


def _check_wire(sx, tag, data, src=CLI_ID, dst=SRC_ID):
    verb, seq = _seq_byte(data, src, dst)
    verb = bytes(verb) if not hasattr(verb, "concrete") else verb.concrete()
    sx.observe(f"{tag}.verb", verb)
    sx.observe(f"{tag}.seq", seq)
    if verb in COMMAND_VERBS:
        sx.check((seq >= 192) & (seq <= 255), f"wire.command-range.{tag}", lambda: f"{verb} seq={seq}")
    else:
        sx.check(verb in PROTOCOL_VERBS, f"wire.known-verb.{tag}", lambda: str(verb))
        sx.check((seq >= 1) & (seq <= 191), f"wire.protocol-range.{tag}", lambda: f"{verb} seq={seq}")


class _Desc:
    identifier = SRC_ID
    client_identifier = CLI_ID
    destination = DEST
    name = "spa"
    ipaddress, port = DEST


def _async_spa(sx):
    import time
    from geckolib.async_spa import GeckoAsyncSpa
    from geckolib.driver import GeckoAsyncUdpProtocol
    from geckolib.async_spa_descriptor import GeckoAsyncSpaDescriptor

    async def ev(*a, **k):
        pass

    spa = GeckoAsyncSpa(CLI_ID, GeckoAsyncSpaDescriptor(SRC_ID, "spa", DEST), None, ev)
    proto = GeckoAsyncUdpProtocol(None, DEST)
    proto.transport = FakeTransport()
    proto._sequence_counter_protocol = sx.int_("protocol_counter", 0, 191)
    proto._sequence_counter_command = sx.int_("command_counter", 191, 255)
    spa._protocol = proto
    spa._is_connected = True
    spa._last_ping = time.monotonic()
    spa.pack_type = 10
    spa.config_version = 50
    spa.log_version = 50
    made = []

    async def get(create_func, destination=None, retry_count=1):
        r = create_func()
        made.append(r)
        proto.queue_send(r, destination)
        return r

    proto.get = get
    return spa, proto, made


def wire_async(which):
    def scenario(sx):
        spa, proto, made = _async_spa(sx)

        class Log:
            begin, end = 256, 300
        spa.log_class = Log()
        if which == "version":
            proto.queue_send(spa._get_version_handler_func())
        elif which == "channel":
            proto.queue_send(spa._get_channel_handler_func())
        elif which == "config":
            proto.queue_send(spa._get_config_file_handler_func())
        elif which == "status":
            proto.queue_send(spa._get_status_block_handler_func())
        elif which == "watercare":
            proto.queue_send(spa._get_watercare_handler_func())
        elif which == "reminders":
            proto.queue_send(spa._get_reminders_handler_func())
        elif which == "press":
            drive(spa.async_press(sx.int_("key", 0, 255)))
        elif which == "set_value1":
            drive(spa._on_async_set_value(sx.int_("pos", 0, 65535), 1, sx.int_("val", 0, 255)))
        elif which == "set_value2":
            drive(spa._on_async_set_value(sx.int_("pos", 0, 65535), 2, sx.int_("val", 0, 65535)))
        elif which == "set_watercare":
            drive(spa.async_set_watercare(sx.int_("mode", 0, 255)))
        elif which == "statq":
            from geckolib.driver import GeckoAsyncPartialStatusBlockProtocolHandler
            h = GeckoAsyncPartialStatusBlockProtocolHandler(proto)
            drive(h.async_handle(b"STATP\x00", (DEST[0], DEST[1], SRC_ID, CLI_ID)))
        sent = proto.transport.sent
        sx.check(len(sent) == 1, f"wire.one-datagram.async.{which}", lambda: str(len(sent)))
        _check_wire(sx, f"async.{which}", sent[0][0])
    return scenario


def _sync_spa(sx):
    from geckolib.spa import GeckoSpa
    spa = GeckoSpa(_Desc())
    spa._lock = _MonLock()
    spa._sequence_counter_protocol = sx.int_("protocol_counter", 0, 191)
    spa._sequence_counter_command = sx.int_("command_counter", 191, 255)
    spa.pack_type = 10
    spa.config_version = 50
    spa.log_version = 50
    return spa


def wire_sync(which):
    def scenario(sx):
        import time
        spa = _sync_spa(sx)
        sender = (DEST[0], DEST[1], SRC_ID, CLI_ID)

        class Log:
            begin, end = 256, 300

        class H:
            en_build, en_major, en_minor, co_build, co_major, co_minor = 1, 2, 3, 4, 5, 6
            channel, signal_strength = 10, 33
            plateform_key, config_version, log_version = "inYT", 50, 50
        if which == "set_value1":
            spa._on_set_value(sx.int_("pos", 0, 65535), 1, sx.int_("val", 0, 255))
        elif which == "set_value2":
            spa._on_set_value(sx.int_("pos", 0, 65535), 2, sx.int_("val", 0, 65535))
        elif which == "press":
            spa.press(sx.int_("key", 0, 255))
        elif which == "refresh":
            spa._is_connected = True
            spa.new_log_class = Log()
            spa.refresh()
        elif which == "version":
            spa.open = lambda: None
            spa._ping_thread = type("T", (), {"start": lambda self: None})()
            spa.start_connect()
            from geckolib.driver import GeckoVersionProtocolHandler
            spa._send_handlers = [x for x in spa._send_handlers if isinstance(x[0], GeckoVersionProtocolHandler)]
        elif which == "channel":
            spa._on_version_received(H(), sender)
        elif which == "config":
            spa._on_channel_received(H(), sender)
        elif which == "full_status":
            spa._on_config_received(H(), sender)
        elif which == "statq":
            from geckolib.driver import GeckoPartialStatusBlockProtocolHandler
            h = GeckoPartialStatusBlockProtocolHandler(spa)
            h.handle(b"STATP\x00", sender)
        elif which in ("wc_set", "wc_update", "rem_update"):
            from geckolib.automation.watercare import GeckoWaterCare
            from geckolib.automation.reminders import GeckoReminders

            class F:
                unique_id, name, _spa = "u", "n", spa
            if which == "wc_set":
                GeckoWaterCare(F()).set_mode(sx.int_("mode", 0, 4))
            elif which == "wc_update":
                GeckoWaterCare(F()).update()
            else:
                GeckoReminders(F()).update()
        q = spa._send_handlers
        sx.check(len(q) == 1, f"wire.one-datagram.sync.{which}", lambda: str(len(q)))
        _check_wire(sx, f"sync.{which}", q[0][0].send_bytes)
        sx.check(spa._lock.held == 0, "lock.released")
    return scenario


def bytes_of(x):
    return x.concrete() if hasattr(x, "concrete") else bytes(x)


ASYNC_KINDS = ["version", "channel", "config", "status", "watercare", "reminders", "press", "set_value1",
               "set_value2", "set_watercare", "statq"]
SYNC_KINDS = ["set_value1", "set_value2", "press", "refresh", "version", "channel", "config", "full_status",
              "statq", "wc_set", "wc_update", "rem_update"]


class _HookLock:
    """Lock double that lets "another thread" run a whole call at a chosen lock boundary: the instant
    before the k-th acquisition (single-threaded stepping of a two-thread interleaving)."""

    def __init__(self, hook_at, hook):
        self.held = 0
        self.n = 0
        self.hook_at = hook_at
        self.hook = hook
        self.busy = False

    def __enter__(self):
        if not self.busy:
            self.n += 1
            if self.n == self.hook_at:
                self.busy = True
                try:
                    self.hook()
                finally:
                    self.busy = False
        assert self.held == 0
        self.held += 1

    def __exit__(self, *a):
        self.held -= 1


THREE = [False]


def interleaved_threads(sx):
    """two threads on one threaded socket: the second runs a complete call at any lock boundary of the
    first one's call; both must get distinct successive numbers of the cycle"""
    from geckolib.driver import GeckoUdpSocket
    s = GeckoUdpSocket()
    p = sx.int_("protocol_counter", 0, 191)
    c = sx.int_("command_counter", 191, 255)
    s._sequence_counter_protocol, s._sequence_counter_command = p, c
    k = bool(sx.choice("command", 2))
    at = 1 + sx.choice("second_thread_runs_before_acquisition", 4)
    got = []

    def other():
        got.append(s.get_and_increment_sequence_counter(k))
    if THREE[0] and sx.choice("third_thread", 2):
        # a third thread cuts in at a lock boundary of the second one's call
        at3 = 1 + sx.choice("third_thread_runs_before_acquisition", 3)
        outer = _HookLock(at, None)
        inner_calls = []

        def second():
            saved_n, saved_at, saved_hook = outer.n, outer.hook_at, outer.hook
            outer.n, outer.hook_at, outer.hook = 0, at3, lambda: inner_calls.append(s.get_and_increment_sequence_counter(k))
            outer.busy = False
            try:
                got.append(s.get_and_increment_sequence_counter(k))
            finally:
                outer.n, outer.hook_at, outer.hook = saved_n, saved_at, saved_hook
                outer.busy = True
        outer.hook = second
        s._lock = outer
        r = s.get_and_increment_sequence_counter(k)
        vals = inner_calls + got + [r]
        sx.observe("results3", list(vals))
        if len(vals) == 3:
            from sx.core import And
            sx.check(And(vals[0] != vals[1], vals[1] != vals[2], vals[0] != vals[2]), "lock.concurrent-callers-get-distinct-numbers",
                     lambda: str(vals))
        return
    s._lock = _HookLock(at, other)
    r = s.get_and_increment_sequence_counter(k)
    sx.observe("results", (r, list(got)))
    if got:
        from sx.core import Ite
        a, b = got[0], r          # the second thread completed first
        lo, hi = (191, 255) if k else (0, 191)
        prev = c if k else p
        first = Ite(prev == hi, lo + 1, prev + 1)
        sx.check(a != b, "lock.concurrent-callers-get-distinct-numbers", lambda: f"{a} and {b}")
        exp_pair = (first, Ite(first == hi, lo + 1, first + 1))
        ok = ((a == exp_pair[0]) & (b == exp_pair[1])) | ((b == exp_pair[0]) & (a == exp_pair[1]))
        sx.check(ok, "lock.concurrent-callers-get-successive-numbers", lambda: f"{a},{b}")
        sx.check((a >= lo + 1) & (a <= hi) & (b >= lo + 1) & (b <= hi), "lock.concurrent-results-in-range")
    else:
        sx.check(at > 1, "lock.call-acquires-the-lock")


def independence(make):
    """API-only: counters are per connection - calls on one instance never move another's, and a
    fresh instance starts its cycles at 1 / 192 whatever happened elsewhere before."""
    def scenario(sx):
        a = make()
        n = sx.choice("calls_on_a", 4)
        got_a = []
        for i in range(n):
            got_a.append(a.get_and_increment_sequence_counter(bool(sx.choice(f"a_kind{i}", 2))))
        b = make()
        kb = bool(sx.choice("b_kind", 2))
        rb = b.get_and_increment_sequence_counter(kb)
        sx.check(rb == (192 if kb else 1), "ctr.fresh-instance-starts-its-own-cycle", lambda: f"{rb} after {got_a}")
        ra = a.get_and_increment_sequence_counter(kb)
        prev = [v for v, i in zip(got_a, range(n)) if (v >= 192) == kb]
        exp = (prev[-1] + 1) if prev else (192 if kb else 1)
        sx.check(ra == exp, "ctr.other-instance-does-not-interfere", lambda: f"{ra} vs {exp}")
    return scenario


def long_run(make):
    """API-only: 450 calls from a fresh instance in a chosen interleaving pattern follow both cycles
    through their wrap points (concrete run; complements the inductive step units)."""
    def scenario(sx):
        o = make()
        pat = [(0,), (1,), (0, 1), (0, 0, 1), (1, 1, 0)][sx.choice("pattern", 5)]
        exp = {0: 0, 1: 191}
        for i in range(450):
            k = pat[i % len(pat)]
            r = o.get_and_increment_sequence_counter(bool(k))
            exp[k] = (1 if exp[k] == 191 else exp[k] + 1) if k == 0 else (192 if exp[k] == 255 else exp[k] + 1)
            if r != exp[k]:
                sx.check(False, "ctr.long-run-follows-cycle", f"call {i} kind {k}: {r} expected {exp[k]}")
                return
        sx.check(True, "ctr.long-run-follows-cycle")
    return scenario


def handouts_under_loss(sx):
    """API-level: everything the real `GeckoAsyncUdpProtocol.get` retry loop and an outside party (a STATQ
    ack, another task) draw from one connection, with replies lost per attempt, is one unbroken cycle per
    kind - no request engine bookkeeping may rewind or skip a counter (round-7 seeded change)."""
    from sx.vloop import patched_time
    from geckolib.driver import GeckoVersionProtocolHandler
    from . import c06
    env = c06.Env()
    try:
        with patched_time(env.loop):
            proto = env.proto
            log = []
            real = proto.get_and_increment_sequence_counter

            def logged(command=False, *a, **kw):
                r = real(command, *a, **kw)
                log.append((bool(command), r))
                return r
            proto.get_and_increment_sequence_counter = logged
            p0 = sx.int_("protocol_counter", 0, 191)
            c0 = sx.int_("command_counter", 191, 255)
            proto._sequence_counter_protocol = p0
            proto._sequence_counter_command = c0
            R = 2 + sx.choice("retry_count", 2)
            kind = bool(sx.choice("request_is_command", 2))

            def create():
                return GeckoVersionProtocolHandler.request(proto.get_and_increment_sequence_counter(kind), parms=c06.PARMS)

            def on_send(data):
                a = len(env.tr.sent) - 1
                if a > R:
                    sx.assume(False)
                c = sx.choice(f"attempt{a}_outside_draw", 3)      # nothing / protocol number / command number
                if c:
                    env.loop.call_later(0.07, proto.get_and_increment_sequence_counter, c == 2)
                if sx.choice(f"attempt{a}_answered", 2):
                    env.loop.call_later(0.12, proto.datagram_received, c06.KINDS[0][2], c06.PARMS)
            env.on_send = on_send
            env.loop.run_until_complete(proto.get(create, None, R), max_time=100.0)
            after = [(False, proto.get_and_increment_sequence_counter(False)), (True, proto.get_and_increment_sequence_counter(True))]
            sx.observe("handed_out", list(log))
            from sx.core import And
            for k, pre, lo, hi in ((False, p0, 0, 191), (True, c0, 191, 255)):
                vals = [pre] + [v for kk, v in log if kk == k]
                ok = And(*[_succ_ok(a, b, lo, hi) for a, b in zip(vals, vals[1:])])
                sx.check(ok, "ctr.api.handouts-form-one-cycle-under-retries", lambda: f"command={k}: {vals}")
    finally:
        env.close()


def units(tier):
    THREE[0] = tier != "quick"
    for nm, mk in (("async-protocol", _mk_async_proto), ("threaded-socket", _mk_socket)):
        yield Unit(f"independence.{nm}", independence(mk))
        yield Unit(f"long-run.{nm}", long_run(mk), validate=False)
    yield Unit("step.async-protocol", _counter_step(_mk_async_proto))
    yield Unit("step.threaded-socket", _counter_step(_mk_socket))
    yield Unit("handouts.async-get-under-loss", handouts_under_loss)
    yield Unit("lock.threaded-socket", lock_discipline)
    yield Unit("lock.interleaved-threads", interleaved_threads)
    for k in ASYNC_KINDS:
        yield Unit(f"wire.async.{k}", wire_async(k))
    for k in SYNC_KINDS:
        yield Unit(f"wire.sync.{k}", wire_sync(k))
