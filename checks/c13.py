"""C13 - facade commands emit exactly the intended device write and are idempotent.

Real device commands -> real accessor write path -> real SPACK / SETWC encoder ->
real GeckoAsyncUdpProtocol.get on the virtual loop; a reference spa applies the
write / key press to its block and echoes a partial update, which the real STATP
handler and the real on-update callback install.  Symbolic: the current state of
the device-state, user-demand, unit and set-point items, the command argument,
both sequence counters.  Wiring: every configuration among the 34 shipped snapshots.
"""
from __future__ import annotations

import glob
import os

from .common import Unit, SRC_ID, CLI_ID, DEST, content_offset, drive, SRC
from . import facade_env as fe, refmodel

PROPERTY = "C13"
FUNCTIONS = ["GeckoSwitch.async_turn_on/async_turn_off/turn_on/turn_off", "GeckoPump.async_set_mode/set_mode",
             "GeckoWaterHeater.async_set_target_temperature/async_set_temperature_unit/set_target_temperature",
             "GeckoWaterCare.async_set_mode", "GeckoAsyncSpa.async_press/_on_async_set_value/async_set_watercare",
             "GeckoStructAccessor.async_set_value/_set_value", "GeckoTempStructAccessor.async_set_value",
             "GeckoPackCommandProtocolHandler.set_value/keypress/handle", "GeckoWatercareProtocolHandler.set",
             "GeckoAsyncUdpProtocol.get/queue_send", "GeckoUdpProtocolHandler.wait_for_response",
             "GeckoAsyncPartialStatusBlockProtocolHandler.async_handle", "GeckoAsyncSpa._async_on_partial_status_update"]
BOUNDS = {"commands": "one command per path on an arbitrary current state for every device of every snapshot configuration; "
                      "plus three-command sequences on pairs of pump demands that share a byte/word (quick: the first "
                      "such pair, snapshot sibling bits; thorough: every ordered pair, both sibling backgrounds)",
          "state": "the bytes of the items the chosen command touches (device state, user demand, TempUnits, SetpointG, "
                   "EconActive) symbolic, the rest of the block from the shipped snapshot",
          "temperature argument": "three concrete temperatures per unit (min, max, a half-degree value); every decimal "
                                  "is decided by C14"}
ASSUMPTIONS = [
    "reference spa: a set-value (pos,len,data) is stored verbatim; a key press toggles the device whose keypad code it "
    "is between OFF and its first non-OFF state; the spa answers PACKS / WCSET at once and echoes the change as a STATP",
    "the datagram reaches the client's queue unwrapped from <PACKT> framing (C04/C07)",
    "temperature encoding exactness is C14's part; here the emitted word is compared with the reference int(t*18) / "
    "int(t*10-320) computed in the same IEEE arithmetic",
]
SITES = ["cmd.*"]
PARMS = (DEST[0], DEST[1], SRC_ID, CLI_ID)
SNAPDIR = os.path.join(os.path.dirname(SRC), "tests", "snapshots")

_CONF = None


def configurations():
    """{(plat, cfg, log): snapshot bytes} from the shipped snapshot files (real parser)."""
    global _CONF
    if _CONF is None:
        from geckolib.utils.snapshot import GeckoSnapshot
        out = {}
        for f in sorted(glob.glob(os.path.join(SNAPDIR, "*.snapshot"))):
            for s in GeckoSnapshot.parse_log_file(f):
                try:
                    key = (s.packtype.lower(), s.config_version, s.log_version)
                except Exception:  # noqa
                    continue
                if len(s.bytes) == 1024:
                    out.setdefault(key, s.bytes)
        _CONF = out
    return _CONF


class World:
    """async spa + facade + reference spa on the virtual loop"""

    def __init__(self, sx, plat, c, l, base):
        from sx.vloop import VLoop, FakeDatagramTransport
        from geckolib.driver import GeckoAsyncUdpProtocol, GeckoAsyncPartialStatusBlockProtocolHandler
        from geckolib.automation.async_facade import GeckoAsyncFacade
        self.sx = sx
        self.loop = VLoop()
        import geckolib.config as gc
        gc.ConfigChange = self.loop.create_future()    # the task manager's tidy task has slept on it before
        spa, tm = fe.async_spa(plat, c, l, base)
        self.spa = spa
        self.facade = GeckoAsyncFacade(spa, tm)      # wiring is read from the snapshot block
        self.base = base
        self.block0 = base
        self.spa_block = base
        proto = GeckoAsyncUdpProtocol(None, DEST)
        proto._sequence_counter_protocol = sx.int_("protocol_counter", 0, 191)
        proto._sequence_counter_command = sx.int_("command_counter", 191, 255)
        self.proto = proto
        spa._protocol = proto
        self.sent = []
        self.lost = []
        proto.connection_made(FakeDatagramTransport(self.loop, proto, self._on_send))
        self.partial = GeckoAsyncPartialStatusBlockProtocolHandler(
            proto, async_on_handled=spa._async_on_partial_status_update)

    def symbolise(self, keys):
        """make the *field bits* of the named items symbolic (the current state of what the command
        touches); every other bit keeps its snapshot value"""
        acc = self.spa.accessors
        items = list(self.base)
        # background of the shared bytes: as in the snapshot, or every sibling bit set
        ones = bool(self.sx.choice("sibling_bits_all_ones", 2))
        for k in keys:
            if k not in acc:
                continue
            a = acc[k]
            rec = refmodel.record_of(a)
            if ones and rec["bitpos"] is not None:
                for j in range(a.length):
                    items[a.pos + j] = 255
            v = self.sx.int_(f"state_{k}", 0, (rec["mask"] if rec["bitpos"] is not None else (1 << (8 * rec["size"])) - 1))
            fe.set_item(items, a, v)
        self.block0 = fe.block_from_items(items)
        self.spa.struct.set_status_block(self.block0)
        self.spa_block = self.block0

    # ---- the reference spa
    def _on_send(self, tr, data, addr):
        from geckolib.driver import GeckoPackCommandProtocolHandler
        off = content_offset(CLI_ID, SRC_ID)
        content = data[off:-16]
        verb = content[:5]
        verb = verb.concrete() if hasattr(verb, "concrete") else bytes(verb)
        if getattr(self, "deaf", False):
            # the spa is unreachable: the command is lost, nothing is applied, nothing comes back
            self.lost.append((verb, content, data))
            return
        self.sent.append((verb, content, data))
        if verb == b"SPACK":
            self.proto.datagram_received(b"PACKS", PARMS)
        elif verb == b"SETWC":
            self.proto.datagram_received(b"WCSET", PARMS)

    def apply_and_echo(self, pos, data):
        """the spa stores `data` at pos and reports the change; the client installs it"""
        n = len(data)
        self.spa_block = self.spa_block[0:pos] + data + self.spa_block[pos + n:]
        from sx.loader import STRUCT_SHIM
        echo = b"STATP\x01" + STRUCT_SHIM.pack(">H", pos) + data
        drive(self.partial.async_handle(echo, PARMS))
        drive(self.partial.async_handled(PARMS))

    def run(self, coro):
        from sx.vloop import patched_time
        import time
        with patched_time(self.loop):
            self.spa._last_ping = self.loop.time()
            r = self.loop.run_until_complete(coro, max_time=120.0)
        self.loop.cancel_all()
        return r

    def decode_spack(self, content):
        from geckolib.driver import GeckoPackCommandProtocolHandler
        h = GeckoPackCommandProtocolHandler()
        ok = h.can_handle(content, PARMS)
        h.handle(content, PARMS)
        return ok, h


def _state_rec(d):
    a = d._accessor if hasattr(d, "_accessor") else d._state_sensor.accessor
    return a, refmodel.record_of(a)


def _toggle(w, dev):
    """reference spa: key press toggles the device's state item between OFF and its first non-OFF state"""
    a, rec = _state_rec(dev)
    cur = refmodel.raw(rec, w.spa_block)
    if rec["type"] == "Bool":
        new = 1 - (cur & 1)
    else:
        off = rec["labels"].index("OFF")
        on = [i for i, s in enumerate(rec["labels"]) if s not in ("OFF", "")][0]
        new = on if bool(cur == off) else off
    old = refmodel.field(rec, w.spa_block)
    if rec["bitpos"] is not None:
        val = (old & ~(rec["mask"] << rec["bitpos"])) | ((new & rec["mask"]) << rec["bitpos"])
    else:
        val = new
    from sx.loader import STRUCT_SHIM
    return a.pos, STRUCT_SHIM.pack(">B" if rec["size"] == 1 else ">H", val)


def _check_header(sx, w, h, tag):
    sx.check(h.pack_type == w.spa.pack_type, f"cmd.{tag}.pack-type")
    sx.check((h._sequence >= 192) & (h._sequence <= 255), f"cmd.{tag}.command-range-sequence")


def switch_cmd(plat, c, l, base, async_):
    def scenario(sx):
        from geckolib.const import GeckoConstants
        w = World(sx, plat, c, l, base)
        devs = [d for d in list(w.facade.blowers) + list(w.facade.lights) + ([w.facade.eco_mode] if w.facade.eco_mode else [])]
        if not devs:
            sx.check(True, "cmd.switch.none")
            return
        d = devs[sx.choice("device", len(devs))]
        w.symbolise([d._accessor.tag])
        want_on = bool(sx.choice("turn_on", 2))
        was_on = bool(d.is_on)
        if async_:
            if sx.choice("first_command_unanswered", 2):
                # every transmission of the first command is lost: the spa's state is what it was, so the client
                # must still see the old state and the repeated command must be sent like the first (round 7)
                w.deaf = True
                w.run(d.async_turn_on() if want_on else d.async_turn_off())
                w.deaf = False
                sx.check(bool(d.is_on) == was_on, "cmd.switch.unanswered-command-leaves-the-reported-state",
                         lambda: f"was_on={was_on} lost={len(w.lost)}")
                sx.check((len(w.lost) == 0) == (was_on == want_on), "cmd.switch.unanswered-command-was-transmitted")
            w.run(d.async_turn_on() if want_on else d.async_turn_off())
        else:
            # threaded twin: the calls reach the spa object synchronously
            presses, sets = [], []
            w.spa.press = lambda k: presses.append(k)
            w.spa.struct._on_set_value = lambda p, n, v: sets.append((p, n, v))
            (d.turn_on if want_on else d.turn_off)()
            n = len(presses) + len(sets)
            sx.check(n == (0 if was_on == want_on else 1), "cmd.switch.sync-one-call-or-none")
            if presses:
                sx.check(presses == [d._keypad_button] and d._keypad_button != 0, "cmd.switch.sync-keypad")
            return
        sx.observe("sent", len(w.sent))
        if was_on == want_on:
            sx.check(len(w.sent) == 0, "cmd.switch.idempotent-no-datagram", lambda: str(w.sent))
            return
        sx.check(len(w.sent) == 1 and w.sent[0][0] == b"SPACK", "cmd.switch.one-command")
        ok, h = w.decode_spack(w.sent[0][1])
        sx.check(ok, "cmd.switch.decodable")
        _check_header(sx, w, h, "switch")
        if d._keypad_button != 0:
            sx.check(h.is_key_press and not h.is_set_value, "cmd.switch.is-key-press")
            sx.check(h.keycode == d._keypad_button, "cmd.switch.keycode")
            sx.check(GeckoConstants.DEVICES[d.key][1] == d._keypad_button, "cmd.switch.keycode-is-the-devices")
            pos, data = _toggle(w, d)
            w.apply_and_echo(pos, data)
        else:
            sx.check(h.is_set_value, "cmd.switch.is-set-value")
            a, rec = _state_rec(d)
            sx.check((h.position == a.pos) & (len(h.new_data) == a.length), "cmd.switch.addresses-item")
            w.apply_and_echo(h.position, h.new_data)
        sx.check(bool(d.is_on) == want_on, "cmd.switch.state-after-echo")
    return scenario


def pump_cmd(plat, c, l, base):
    def scenario(sx):
        w = World(sx, plat, c, l, base)
        pumps = list(w.facade.pumps)
        if not pumps:
            sx.check(True, "cmd.pump.none")
            return
        p = pumps[sx.choice("pump", len(pumps))]
        w.symbolise([p._user_demand["demand"], p._state_sensor.accessor.tag])
        modes = [m for m in p.modes]
        mode = modes[sx.choice("mode", len(modes))]
        w.run(p.async_set_mode(mode))
        sx.check(len(w.sent) == 1 and w.sent[0][0] == b"SPACK", "cmd.pump.one-command", lambda: str(len(w.sent)))
        ok, h = w.decode_spack(w.sent[0][1])
        _check_header(sx, w, h, "pump")
        a = w.spa.accessors[p._user_demand["demand"]]
        sx.check(ok and h.is_set_value, "cmd.pump.is-set-value")
        sx.check((h.position == a.pos) & (len(h.new_data) == a.length), "cmd.pump.addresses-demand-item")
        content = w.sent[0][1]
        sx.check((content[9] == w.spa.config_version) & (content[10] == w.spa.log_version), "cmd.pump.versions")
        before = w.spa.struct.status_block
        w.apply_and_echo(h.position, h.new_data)
        sx.check(a.value == mode, "cmd.pump.demand-reads-requested-mode", lambda: f"{a.value!r} vs {mode!r}")
        # nothing but the demand's own bits changed
        rec = refmodel.record_of(a)
        if rec["bitpos"] is not None:
            keep = ~(rec["mask"] << rec["bitpos"]) & ((1 << (8 * rec["size"])) - 1)
            sx.check((refmodel.field(rec, before) & keep) == (refmodel.field(rec, w.spa.struct.status_block) & keep),
                     "cmd.pump.other-bits-kept")
    return scenario


def pump_sequence(plat, c, l, base, all_pairs=False):
    """three commands in a row on demands that share a byte/word: a command that changes nothing, a change of a
    neighbouring demand, then a real change of the first one - the last write must carry the neighbour's
    *current* bits"""
    def scenario(sx):
        w = World(sx, plat, c, l, base)
        pumps = [p for p in w.facade.pumps]
        acc = w.spa.accessors
        # two pumps whose demand items live in the same field
        pairs = [(a, b) for a in pumps for b in pumps if a is not b
                 and acc[a._user_demand["demand"]].pos == acc[b._user_demand["demand"]].pos]
        if not pairs:
            sx.check(True, "cmd.sequence.none")
            return
        if not all_pairs:
            pairs = pairs[:1]
        x, y = pairs[sx.choice("pair", len(pairs))]
        ax, ay = acc[x._user_demand["demand"]], acc[y._user_demand["demand"]]
        w.symbolise([ax.tag, ay.tag])

        def command(pump, mode):
            del w.sent[:]
            w.loop = type(w.loop)()           # a fresh virtual loop per command (the previous one was drained)
            from sx.vloop import FakeDatagramTransport
            w.proto.transport = FakeDatagramTransport(w.loop, w.proto, w._on_send)
            w.run(pump.async_set_mode(mode))
            sx.check(len(w.sent) == 1, "cmd.sequence.one-command")
            ok, h = w.decode_spack(w.sent[0][1])
            w.apply_and_echo(h.position, h.new_data)
        cur = ax.value
        sx.assume(cur in x.modes and cur != "")           # (a stored value outside the label list cannot be re-requested)
        command(x, cur)                                   # 1. no change for x
        my = [m for m in y.modes if m != ""][-2:]
        command(y, my[sx.choice("y_mode", len(my))])     # 2. the neighbour changes
        y_now = ay.value
        mx = [m for m in x.modes if m != ""][-2:]
        target = mx[sx.choice("x_mode", len(mx))]
        command(x, target)                                # 3. x really changes
        sx.check(ax.value == target, "cmd.sequence.target-reads-back")
        sx.check(ay.value == y_now, "cmd.sequence.neighbour-demand-untouched", lambda: f"{ay.tag}: {ay.value!r} was {y_now!r}")
    return scenario


def heater_cmd(plat, c, l, base):
    def scenario(sx):
        w = World(sx, plat, c, l, base)
        h_ = w.facade.water_heater
        acc = w.spa.accessors
        w.symbolise(["TempUnits", "SetpointG"])
        which = sx.choice("which", 2)
        if which == 0:
            is_c = bool(acc["TempUnits"].value == "C")
            lo, hi = (15, 40) if is_c else (59, 104)
            # the exactness of the encoding for every decimal is C14's part: three concrete arguments here
            t = [float(lo), float(hi), (lo + hi) // 2 + 0.5][sx.choice("temperature", 3)]
            w.run(h_.async_set_target_temperature(t))
            a = acc["SetpointG"]
            ref = int(t * 18.0) if is_c else int(t * 10.0 - 320)
        else:
            unit = ["C", "F", "°C", "°F", "f", "c"][sx.choice("unit", 6)]
            w.run(h_.async_set_temperature_unit(unit))
            a = acc["TempUnits"]
            ref = a.items.index("F" if unit in ("F", "°F", "f") else "C")
        sx.check(len(w.sent) == 1 and w.sent[0][0] == b"SPACK", "cmd.heater.one-command", lambda: str(len(w.sent)))
        ok, h = w.decode_spack(w.sent[0][1])
        _check_header(sx, w, h, "heater")
        sx.check(ok and h.is_set_value, "cmd.heater.is-set-value")
        sx.check((h.position == a.pos) & (len(h.new_data) == a.length), "cmd.heater.addresses-item")
        rec = refmodel.record_of(a)
        w.apply_and_echo(h.position, h.new_data)
        got = refmodel.raw(rec, w.spa.struct.status_block)
        sx.observe("stored", got)
        sx.check(got == ref, "cmd.heater.stored-value", lambda: f"{got} vs {ref}")
    return scenario


def heater_sequence(plat, c, l, base):
    """a unit command, its echo, then a target-temperature command on the same connection: the set point the spa
    stores is the requested temperature in the unit now in force"""
    def scenario(sx):
        w = World(sx, plat, c, l, base)
        h_ = w.facade.water_heater
        acc = w.spa.accessors
        w.symbolise(["TempUnits", "SetpointG"])
        _ = (h_.target_temperature, h_.current_temperature)        # the client has read its temperatures before

        def command(coro):
            del w.sent[:]
            w.loop = type(w.loop)()
            from sx.vloop import FakeDatagramTransport
            w.proto.transport = FakeDatagramTransport(w.loop, w.proto, w._on_send)
            w.run(coro)
            sx.check(len(w.sent) == 1 and w.sent[0][0] == b"SPACK", "cmd.heater-sequence.one-command", lambda: str(len(w.sent)))
            ok, h = w.decode_spack(w.sent[0][1])
            w.apply_and_echo(h.position, h.new_data)
            return h
        unit = ["C", "F"][sx.choice("unit", 2)]
        command(h_.async_set_temperature_unit(unit))
        sx.check(acc["TempUnits"].value == unit, "cmd.heater-sequence.unit-reads-back")
        lo, hi = (15, 40) if unit == "C" else (59, 104)
        t = [float(lo), float(hi), (lo + hi) // 2 + 0.5][sx.choice("temperature", 3)]
        h = command(h_.async_set_target_temperature(t))
        ref = int(t * 18.0) if unit == "C" else int(t * 10.0 - 320)
        a = acc["SetpointG"]
        sx.check((h.position == a.pos) & (len(h.new_data) == a.length), "cmd.heater-sequence.addresses-item")
        got = refmodel.raw(refmodel.record_of(a), w.spa_block)
        sx.observe("stored", got)
        sx.check(got == ref, "cmd.heater-sequence.stored-value", lambda: f"{got} vs {ref} ({t} {unit})")
    return scenario


def sx_int(f):
    from sx.loader import sx_int as I
    from sx.core import SymFloat
    return I(f) if isinstance(f, SymFloat) else int(f)


def watercare_cmd(plat, c, l, base):
    def scenario(sx):
        from geckolib.const import GeckoConstants
        w = World(sx, plat, c, l, base)
        wc = w.facade.water_care
        # what the client believes the mode to be (from the last poll or its own last command): nothing yet, or any
        # mode - the spa's keypad may have changed it since, so the command is sent whatever the belief
        if sx.choice("client_has_a_belief", 2):
            wc.change_watercare_mode(sx.int_("believed_mode", 0, 4))
        believed = wc.active_mode
        seen = []
        wc.watch(lambda *a: seen.append(a))
        if sx.choice("as_string", 2):
            k = sx.choice("mode_name", 5)
            arg, mode = GeckoConstants.WATERCARE_MODE_STRING[k], k
        else:
            mode = sx.int_("mode", 0, 4)
            arg = mode
        w.run(wc.async_set_mode(arg))
        sx.check(len(w.sent) == 1 and w.sent[0][0] == b"SETWC", "cmd.watercare.one-command", lambda: str(w.sent))
        content = w.sent[0][1]
        sx.check(len(content) == 7, "cmd.watercare.length")
        sx.check((content[5] >= 1) & (content[5] <= 191), "cmd.watercare.protocol-range-sequence")
        sx.check(content[6] == mode, "cmd.watercare.mode-byte")
        sx.check(wc.mode == mode, "cmd.watercare.mode-reads-back")
        from sx.core import Ite
        sx.check(len(seen) == (1 if believed is None else Ite(believed == mode, 0, 1)), "cmd.watercare.change-notified-once")
    return scenario


def units(tier):
    for (plat, c, l), base in sorted(configurations().items()):
        tag = f"{plat}-{c}-{l}"
        yield Unit(f"switch.async.{tag}", switch_cmd(plat, c, l, base, True), max_paths=20000)
        yield Unit(f"switch.sync.{tag}", switch_cmd(plat, c, l, base, False), max_paths=20000)
        yield Unit(f"pump.{tag}", pump_cmd(plat, c, l, base), max_paths=20000)
        if tier == "quick":
            yield Unit(f"pump-sequence.{tag}", pump_sequence(plat, c, l, base), max_paths=50000,
                       presets={"sibling_bits_all_ones": 0})
        else:
            # every ordered pair of pumps sharing a field, on both backgrounds of the shared bytes
            for ones in (0, 1):
                yield Unit(f"pump-sequence.{tag}.ones{ones}", pump_sequence(plat, c, l, base, all_pairs=True),
                           max_paths=200000, presets={"sibling_bits_all_ones": ones})
        yield Unit(f"heater.{tag}", heater_cmd(plat, c, l, base), max_paths=20000, ratio_floats=True)
        yield Unit(f"heater-sequence.{tag}", heater_sequence(plat, c, l, base), max_paths=20000, ratio_floats=True)
        yield Unit(f"watercare.{tag}", watercare_cmd(plat, c, l, base))
