"""C12 - device inventory equals the spa's output wiring, with unique keys.

Real GeckoAsyncFacade.__init__/_scan_outputs and GeckoFacade._on_connected/scan_outputs
on a block whose output-configuration items are symbolic (k of them over all their
labels and out-of-range values, the others not connected); the rest of the block is
symbolic too.  Oracle: an independent set-based rule over the table's key lists.
"""
from __future__ import annotations

import itertools

from .common import Unit, combos
from . import facade_env as fe, refmodel

PROPERTY = "C12"
FUNCTIONS = ["GeckoAsyncFacade.__init__/_scan_outputs/all_user_devices/all_automation_devices/devices/get_device",
             "GeckoFacade._on_connected/scan_outputs/devices/get_device", "GeckoAutomationBase.key/unique_id",
             "GeckoPump/GeckoBlower/GeckoLight/GeckoSwitch/GeckoSensor/GeckoBinarySensor/GeckoErrorSensor constructors",
             "GeckoStructAccessor._get_value (enum decode of the output items)", "GeckoConstants.DEVICES/SENSORS/BINARY_SENSORS"]


def bounds(tier):
    return {"symbolic outputs": ("one output of every label-list class, and two outputs of the same class, symbolic over "
                                 "every label and out-of-range byte" if tier == "quick" else
                                 "additionally every pair of classes and three outputs of the largest class") +
                                "; plus, on one table pair per platform, three outputs of the largest class over the "
                                "labels NA/P1*/P2*; remaining outputs not connected",
            "tables": ("every cfg with one log and every log with one cfg per platform" if tier == "quick"
                       else "all 895 cfg x log pairs grouped by inventory-relevant table signature"),
            "block": "bytes of the symbolic outputs fully symbolic; all other bytes zero (the inventory rule reads only "
                     "the output items; symbolic error flags would multiply paths by 2^28 in GeckoErrorSensor)"}


ASSUMPTIONS = [
    "outputs with equal label lists are interchangeable for the inventory rule (the rule reads labels only)",
    "oracle: device d is expected iff a connected output label starts with d, a user demand Ud<d> exists "
    "(case-insensitive) and d is in the device table of the audited commit (a copy in the check, compared with "
    "GeckoConstants.DEVICES); order = all_device_keys order",
    "the interpreter's string hash seed is fixed by ./run (PYTHONHASHSEED=1) so a set-order dependence shows "
    "deterministically",
]
SITES = ["inv.*"]
# the user-device table of the audited commit (GeckoConstants.DEVICES: name, keypad code, class)
DEVICE_TABLE = {"P1": ("Pump 1", 1, "PUMP"), "P2": ("Pump 2", 2, "PUMP"), "P3": ("Pump 3", 3, "PUMP"),
                "P4": ("Pump 4", 4, "PUMP"), "P5": ("Pump 5", 5, "PUMP"), "BL": ("Blower", 6, "BLOWER"),
                "Waterfall": ("Waterfall", 23, "PUMP"), "LI": ("Lights", 16, "LIGHT")}


def _inv_key(plat, c, l):
    """tables with the same key give the same inventory behaviour"""
    P, C, L = fe.tables(plat, c, l)

    class S:
        status_block = b"\x00" * 1024
        accessors = {}
    cc, ll = C(S()), L(S())
    ca, la = cc.accessors, ll.accessors
    outs = tuple((o, tuple(ca[o].items)) for o in cc.output_keys)
    uds = tuple((u, tuple(la[u].items or ())) for u in ll.user_demand_keys if u in la)
    consts = ("SwmRisk", "CP", "PumpRun", "O3", "SwmActive", "Clean", "Purge", "EconActive", "UdLi")
    present = tuple(k for k in consts if k in ca or k in la)
    return (outs, tuple(ll.all_device_keys), tuple(ll.user_demand_keys), uds, present)


_SEL = {}


def selection(tier):
    if tier in _SEL:
        return _SEL[tier]
    seen = {}
    allc = combos()
    if tier == "quick":
        pick = []
        by = {}
        for p, c, l in allc:
            by.setdefault(p, ([], []))
            if c not in by[p][0]:
                by[p][0].append(c)
            if l not in by[p][1]:
                by[p][1].append(l)
        for p, (cs, ls) in by.items():
            for c in cs:
                pick.append((p, c, ls[-1]))
            for l in ls:
                pick.append((p, cs[-1], l))
        allc = pick
    for p, c, l in allc:
        try:
            k = _inv_key(p, c, l)
        except Exception as e:  # noqa
            k = ("broken", p, c, l, repr(e))
        seen.setdefault(k, (p, c, l))
    _SEL[tier] = sorted(seen.values())
    return _SEL[tier]


def _out_classes(cfg_acc, output_keys):
    cls = {}
    for o in output_keys:
        cls.setdefault(tuple(cfg_acc[o].items), []).append(o)
    return list(cls.values())


def _selections(cfg_acc, output_keys, k):
    """representative subsets of outputs made symbolic.
    k == 2 (quick): every single output class, and two outputs of the same class (same device on two outputs);
    k == 3 (thorough): every pair of classes, and three outputs of the largest class."""
    classes = _out_classes(cfg_acc, output_keys)
    sels = [[cl[0]] for cl in classes]
    for cl in classes:
        if len(cl) >= 2:
            sels.append(cl[:2])
    if k >= 3:
        for a, b in itertools.combinations(range(len(classes)), 2):
            sels.append([classes[a][0], classes[b][0]])
        big = max(classes, key=len) if classes else []
        if len(big) >= 3 and len(cfg_acc[big[0]].items) <= 16:
            sels.append(big[:3])
    return sels or [[]]


def inventory(plat, c, l, k, flavour, triple=False):
    def scenario(sx):
        from geckolib.const import GeckoConstants
        items = [0] * 1024
        if flavour == "async":
            spa, tm = fe.async_spa(plat, c, l, b"\x00" * 1024)
        else:
            spa = fe.SyncSpa(plat, c, l, b"\x00" * 1024)
        acc = spa.accessors
        # the wiring is read from the table's own key lists, not from what the structure made of them
        outs = list(spa.config_class.output_keys)
        all_devices = list(spa.log_class.all_device_keys)
        user_demands = list(spa.log_class.user_demand_keys)
        if triple:
            # three outputs of the largest class over the labels of the first two pumps (and NA): a device named by
            # two outputs with another wired device between them, in every order
            from sx.core import Or
            chosen = max(_out_classes(acc, outs), key=len)[:3]
        else:
            sels = _selections(acc, outs, k)
            chosen = sels[sx.choice("selection", len(sels))]
        for o in outs:
            a = acc[o]
            if o in chosen:
                sym = sx.bytes_(f"out_{o}", a.length)
                if triple:
                    few = [i for i, lab in enumerate(a.items) if lab == "NA" or lab[:2] in ("P1", "P2")]
                    sx.assume(Or(*[sym[a.length - 1] == i for i in few]))
                    for j in range(a.length - 1):
                        sx.assume(sym[j] == 0)
                for j in range(a.length):
                    items[a.pos + j] = sym[j]
                continue
            fe.set_item(items, a, a.items.index("NA") if "NA" in a.items else 0)
        blk = fe.block_from_items(items)
        spa.struct.set_status_block(blk)
        if flavour == "async":
            from geckolib.automation.async_facade import GeckoAsyncFacade
            f = GeckoAsyncFacade(spa, tm)
        else:
            f = fe.sync_facade(spa)
        # independent reading of the wiring
        labels = []
        for o in outs:
            rec = refmodel.record_of(acc[o])
            r = refmodel.raw(rec, blk)
            if isinstance(r, int) or bool(r < len(rec["labels"])):
                labels.append(refmodel.enum_label(rec, int(r)))
            else:
                labels.append("Unknown")      # one path for every out-of-range byte
        sx.observe("labels", list(labels))
        # published rows are taken from the copy; rows added since are accepted as they are
        # (names and keypad codes are the library's to choose: taken from the current table where the row exists)
        D = {k: (v[0], v[1], v[3]) for k, v in GeckoConstants.DEVICES.items()}
        for k_, row in DEVICE_TABLE.items():
            D[k_] = (D[k_][0], D[k_][1], row[2]) if k_ in D else row
        exp = fe.expected_devices(labels, all_devices, user_demands, D)
        exp_p = [d for d in exp if D[d][2] == "PUMP"]
        exp_b = [d for d in exp if D[d][2] == "BLOWER"]
        exp_l = [d for d in exp if D[d][2] == "LIGHT"]
        got = ([p.key for p in f.pumps], [b.key for b in f.blowers], [x.key for x in f.lights])
        sx.observe("devices", got)
        sx.check(got[0] == exp_p, "inv.pumps", lambda: f"{got[0]} expected {exp_p} for wiring {labels}")
        sx.check(got[1] == exp_b, "inv.blowers", lambda: f"{got[1]} expected {exp_b}")
        sx.check(got[2] == exp_l, "inv.lights", lambda: f"{got[2]} expected {exp_l}")
        uds = {u.upper(): u for u in user_demands}
        for p in f.pumps:
            ud = uds["UD" + p.key.upper()]
            sx.check(p._user_demand["demand"] == ud and p.modes == acc[ud].items, "inv.pump-demand-and-modes")
            sx.check(p.device_class == "PUMP" and p.name == D[p.key][0], "inv.pump-class")
        for d in f.blowers + f.lights:
            sx.check(d.device_class == D[d.key][2] and d.name == D[d.key][0], "inv.switch-class")
        own = set(spa.config_class.accessors) | set(spa.log_class.accessors)
        exp_s = [s[0].upper() for s in GeckoConstants.SENSORS if s[1] in own]
        exp_bs = [s[0].upper() for s in GeckoConstants.BINARY_SENSORS if s[1] in own]
        sx.check([s.key for s in f.sensors] == exp_s, "inv.sensors")
        sx.check([s.key for s in f.binary_sensors] == exp_bs, "inv.binary-sensors")
        sx.check((f.eco_mode is not None) == ("EconActive" in own), "inv.eco-mode")
        devs = [d for d in f.all_automation_devices]
        sx.check(all(d is not None for d in devs), "inv.no-missing-device-in-list",
                 lambda: str([type(d).__name__ for d in devs]))
        keys = f.devices
        sx.observe("keys", list(keys))
        sx.check(len(set(keys)) == len(keys), "inv.keys-distinct", lambda: str(keys))
        uids = [d.unique_id for d in devs]
        sx.check(len(set(uids)) == len(uids), "inv.unique-ids-distinct")
        for d in devs:
            sx.check(f.get_device(d.key) is d, "inv.lookup-by-key")
        sx.check(f.get_device("no-such-key") is None, "inv.lookup-unknown-key")
        # ---- a second facade in the same process (another spa, or a reconnect) has its own inventory
        if flavour == "async":
            f2 = GeckoAsyncFacade(spa, tm)
        else:
            f2 = fe.sync_facade(spa)
        sx.check([d.key for d in f2.all_automation_devices] == keys, "inv.second-facade-has-the-same-own-inventory",
                 lambda: f"{[d.key for d in f2.all_automation_devices]} vs {keys}")
        sx.check(all(a is not b for a, b in zip(f2.all_automation_devices, devs)), "inv.second-facade-has-its-own-objects")
        sx.check([d.key for d in f.all_automation_devices] == keys, "inv.first-facade-unaffected-by-the-second")
        if flavour == "sync":
            # re-scan after a reconnect with every output un-wired: lookups follow the new scan
            items2 = list(items)
            for o in outs:
                a = acc[o]
                fe.set_item(items2, a, a.items.index("NA") if "NA" in a.items else 0)
            spa.struct.set_status_block(fe.block_from_items(items2))
            old_user = [d.key for d in f.all_user_devices]
            f._on_connected(spa)
            sx.check(f.all_user_devices == [], "inv.rescan-follows-the-new-wiring")
            for k_ in old_user:
                sx.check(f.get_device(k_) is None, "inv.lookup-follows-the-rescan", lambda: f"{k_} still found")
            for d in f.all_automation_devices:
                sx.check(f.get_device(d.key) is d, "inv.lookup-follows-the-rescan")
    return scenario


def rebuilt_structure(sx):
    """one structure object is given the tables of one pack and later those of another (what the simulator's `load`
    and a reconnect to a different spa do): the inventory is that of the tables now in force"""
    from geckolib.const import GeckoConstants
    from geckolib.automation.async_facade import GeckoAsyncFacade
    pairs = [(("inxm", 9, 9), ("inyt", 63, 63)), (("inyt", 63, 63), ("inxm", 9, 9)), (("inyj", 62, 59), ("inxe", 61, 56))]
    (pa, ca, la), (pb, cb, lb) = pairs[sx.choice("pair", len(pairs))]
    flavour = ["async", "sync"][sx.choice("flavour", 2)]
    if flavour == "async":
        spa, tm = fe.async_spa(pa, ca, la, bytes(1024))
    else:
        spa = fe.SyncSpa(pa, ca, la, bytes(1024))
    P, C, L = fe.tables(pb, cb, lb)
    spa.config_class, spa.log_class = C(spa.struct), L(spa.struct)
    if flavour == "async":
        spa.pack_class = P(spa.struct)
        spa.pack_type, spa.config_version, spa.log_version = spa.pack_class.type, cb, lb
    spa.struct.build_accessors(spa.config_class, spa.log_class)
    f = GeckoAsyncFacade(spa, tm) if flavour == "async" else fe.sync_facade(spa)
    own = set(spa.config_class.accessors) | set(spa.log_class.accessors)
    exp_s = [s_[0].upper() for s_ in GeckoConstants.SENSORS if s_[1] in own]
    exp_bs = [s_[0].upper() for s_ in GeckoConstants.BINARY_SENSORS if s_[1] in own]
    sx.check([s_.key for s_ in f.sensors] == exp_s, "inv.rebuilt.sensors", lambda: f"{[s_.key for s_ in f.sensors]} vs {exp_s}")
    sx.check([s_.key for s_ in f.binary_sensors] == exp_bs, "inv.rebuilt.binary-sensors",
             lambda: f"{[s_.key for s_ in f.binary_sensors]} vs {exp_bs}")
    sx.check((f.eco_mode is not None) == ("EconActive" in own), "inv.rebuilt.eco-mode")
    sx.check(set(spa.struct.accessors) == own, "inv.rebuilt.items-are-those-of-the-tables-in-force",
             lambda: str(sorted(set(spa.struct.accessors) ^ own))[:200])


def units(tier):
    yield Unit("rebuilt-structure", rebuilt_structure, validate=False)
    k = 2 if tier == "quick" else 3
    for plat, c, l in selection(tier):
        for flavour in ("async", "sync"):
            yield Unit(f"inventory.{flavour}.{plat}-{c}-{l}", inventory(plat, c, l, k, flavour), max_paths=200000,
                       max_fanout=400)
    last = {}
    for plat, c, l in selection(tier):
        last[plat] = (plat, c, l)
    for plat, c, l in sorted(last.values()):
        P, C, L = fe.tables(plat, c, l)
        cc = C(type("S", (), {"status_block": bytes(1024), "accessors": {}})())
        if not cc.output_keys or len(max(_out_classes(cc.accessors, cc.output_keys), key=len)) < 3:
            continue
        for flavour in ("async", "sync"):
            yield Unit(f"inventory-triple.{flavour}.{plat}-{c}-{l}", inventory(plat, c, l, k, flavour, triple=True),
                       max_paths=200000, max_fanout=400)
