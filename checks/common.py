"""Helpers shared by the harnesses (environment stubs, small reference models)."""
from __future__ import annotations

import glob
import importlib
import os

from sx.harness import Unit  # noqa: F401  (re-export)
from sx import loader

SRC = loader.SRC
PACKS_DIR = os.path.join(SRC, "geckolib", "driver", "packs")

SRC_ID = b"SPA01:02:03:04:05:06"
CLI_ID = b"IOS02ac6d28-42d0-41e3-ad22-274d0aa491da"
DEST = ("10.1.2.3", 10022)


class FakeTransport:
    """Stands in for the asyncio datagram transport (I/O boundary)."""

    def __init__(self, clock=None):
        self.sent = []
        self.closed = 0
        self.clock = clock

    def sendto(self, data, addr=None):
        self.sent.append((data, addr, self.clock() if self.clock else None))

    def close(self):
        self.closed += 1

    def is_closing(self):
        return self.closed > 0

    def get_extra_info(self, *_a, **_k):
        return None


def content_offset(src=CLI_ID, dst=SRC_ID):
    """Offset of the <DATAS> payload inside a framed packet sent with these ids."""
    return 7 + 7 + len(src) + 8 + 7 + len(dst) + 8 + 7


def frame(content, src=SRC_ID, dst=CLI_ID):
    """Independent reference framing of `content` sent from src to dst."""
    return (b"<PACKT><SRCCN>" + src + b"</SRCCN><DESCN>" + dst + b"</DESCN><DATAS>" + content
            + b"</DATAS></PACKT>")


def drive(coro):
    """Run a coroutine that never really suspends; error if it does."""
    try:
        coro.send(None)
    except StopIteration as e:
        return e.value
    coro.close()
    raise RuntimeError("coroutine suspended unexpectedly")


def pack_modules():
    """[(platform, kind, version, module name)] for every cfg/log table module."""
    out = []
    for f in sorted(glob.glob(os.path.join(PACKS_DIR, "*.py"))):
        b = os.path.basename(f)[:-3]
        if b == "__init__":
            continue
        for kind in ("cfg", "log"):
            tag = f"-{kind}-"
            if tag in b:
                plat, ver = b.rsplit(tag, 1)
                out.append((plat, kind, int(ver), f"geckolib.driver.packs.{b}"))
    return out


def platforms():
    out = []
    for f in sorted(glob.glob(os.path.join(PACKS_DIR, "*.py"))):
        b = os.path.basename(f)[:-3]
        if b != "__init__" and "-cfg-" not in b and "-log-" not in b:
            out.append(b)
    return out


def combos():
    """All platform x cfg x log combinations present in the shipped tables."""
    mods = pack_modules()
    out = []
    for p in platforms():
        cfgs = sorted(v for (pl, k, v, _) in mods if pl == p and k == "cfg")
        logs = sorted(v for (pl, k, v, _) in mods if pl == p and k == "log")
        for c in cfgs:
            for l in logs:
                out.append((p, c, l))
    return out


def load_tables(struct_, plat, cfg, log):
    cm = importlib.import_module(f"geckolib.driver.packs.{plat}-cfg-{cfg}")
    lm = importlib.import_module(f"geckolib.driver.packs.{plat}-log-{log}")
    return cm.GeckoConfigStruct(struct_), lm.GeckoLogStruct(struct_)


def apply_write(block, pos, length, value):
    """Reference device model: big-endian store of `value` at block[pos:pos+length]."""
    import struct as real_struct
    from sx import core
    if isinstance(block, core.SymBytesBase) or core.is_sym(value) or core.is_sym(pos):
        data = loader.STRUCT_SHIM.pack(">B" if length == 1 else ">H", value)
        return block[0:pos] + data + block[pos + length:]
    return block[:pos] + real_struct.pack(">B" if length == 1 else ">H", value) + block[pos + length:]
