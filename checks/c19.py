"""C19 - snapshot capture/replay round-trip and loadability of shipped snapshots.

(1) header: the real GeckoShell.version_strings / do_snapshot write the log lines for
    symbolic fields (snapshot name: arbitrary characters; versions: digit strings; pack
    name from the shipped packs) and the real GeckoSnapshot.parse reads them back; its
    regular expressions run in a backtracking matcher executed on the symbolic text;
(2) data line: one symbolic byte through the real hex()/list rendering and the real
    parser; a whole block concretely;
(3) traffic log: segment chains of non-uniform sizes built with the library's own
    datagram builder and log format, reassembled by the real parser (quote-free blocks);
(4) every shipped snapshot file parses, loads into the real simulator, and is served
    back unchanged (versions, config files, full status block).
"""
from __future__ import annotations

import glob
import os

from .common import Unit, SRC_ID, CLI_ID, DEST, platforms
from .c13 import SNAPDIR

PROPERTY = "C19"
FUNCTIONS = ["GeckoShell.version_strings/do_snapshot", "GeckoSnapshot.parse/_funcs/_re_* callbacks/parse_log_file",
             "GeckoSnapshot properties (name, packtype, intouch_EN/CO, config_version, log_version, bytes)",
             "GeckoSimulator.set_snapshot/_on_version/_on_config_file/_on_status_block", "GeckoStatusBlockProtocolHandler.handle"]


def bounds(tier):
    q = tier == "quick"
    return {"snapshot name": f"0..{3 if q else 4} arbitrary latin-1 characters (no newline)",
            "version fields": "concrete, pairwise distinct digit strings of 1, 2 or 3 digits",
            "pack name": "every shipped pack name (with the empty snapshot name), 'inYT' otherwise",
            "data line": "every byte value for one element (symbolic), whole blocks concretely",
            "traffic log": "first segment 30/39/48 bytes, second 39/41, then 39; a block with both quote characters, "
                           "backslashes and every pair of them, and bracketed runs ('[]', '[a]', \"['0x5', '0x6']\", one in the last segment)",
            "shipped files": "all snapshot files under tests/snapshots"}


ASSUMPTIONS = [
    "the log line prefix is the logging format of the shipped snapshot files ('<date> <time>,<ms> geckolib.utils.shell INFO ')",
    "traffic-log clause for one pseudo-random block per run (VERIF_SEED-independent, fixed seed) seeded with every pair "
    "of quote/backslash bytes and with bracketed runs",
    "a snapshot name long enough to embed a whole keyword line ('Snapshot (', 'Config version 1') is outside the bound",
]
SITES = ["hdr.*", "dat.*", "log.*", "file.*"]
PREFIX = "2020-12-08 19:53:28,310 geckolib.utils.shell INFO "


class _Rec:
    def __init__(self):
        self.lines = []

    def info(self, msg, *args):
        from sx.core import SymBytesBase, Conc, Cat
        if isinstance(msg, list):
            msg = str(msg)
        if args:
            bits = msg.split("%s")
            assert len(bits) == len(args) + 1
            parts = []
            for b, a in zip(bits, list(args) + [None]):
                parts.append(b)
                if a is not None:
                    parts.append(a)
            if any(isinstance(p, SymBytesBase) for p in parts):
                msg = Cat([Conc(p.encode("latin1"), True) if isinstance(p, str) else p for p in parts]).fold()
                msg.is_text = True
            else:
                msg = "".join(parts)
        self.lines.append(msg)

    debug = warning = error = info


def _digits(sx, name, n):
    b = sx.bytes_(name, n)
    if sx.symbolic:
        from sx.core import And
        for i in range(n):
            sx.assume(And(b[i] >= 48, b[i] <= 57))
        return b.decode("latin1")
    return b.decode("latin1")


def _txt(x):
    return x


def pack_names():
    import importlib
    return [importlib.import_module(f"geckolib.driver.packs.{p}").GeckoPack(None).name for p in platforms()]


def header(maxname):
    def scenario(sx):
        import geckolib.utils.shell as shell
        from geckolib.utils.snapshot import GeckoSnapshot
        from sx.core import SymBytesBase
        n = sx.choice("name_len", maxname + 1)
        nm = sx.bytes_("name", n)
        if sx.symbolic:
            for i in range(n):
                sx.assume(nm[i] != 10)
        name = nm.decode("latin1") if n else ""
        # version fields: concrete, pairwise distinct digit strings of 1, 2 or 3 digits (the symbolic part is the name)
        dl = sx.choice("digits_len", 3)
        keys = ("en_build", "en_major", "en_minor", "co_build", "co_major", "co_minor", "pack_id", "pack_rev", "pack_rel",
                "cfg", "log", "confnum", "ptype")
        F = {k: str([(i + 1) % 10, 11 + 7 * i, 101 + 61 * i][dl]) for i, k in enumerate(keys)}
        packs = pack_names()
        pack = packs[sx.choice("pack", len(packs))] if n == 0 else "inYT"

        class Spa:
            revision = "39.0"
            intouch_version_en = None
            intouch_version_co = None

            class struct:
                status_block = bytes(range(256)) * 4
        spa = Spa()
        spa.intouch_version_en = shell_fmt("{0} v{1}.{2}", F["en_build"], F["en_major"], F["en_minor"])
        spa.intouch_version_co = shell_fmt("{0} v{1}.{2}", F["co_build"], F["co_major"], F["co_minor"])
        spa.pack = pack
        spa.version = shell_fmt("{0} v{1}.{2}", F["pack_id"], F["pack_rev"], F["pack_rel"])
        spa.config_number, spa.config_version, spa.log_version, spa.pack_type = F["confnum"], F["cfg"], F["log"], F["ptype"]
        sh = shell.GeckoShell.__new__(shell.GeckoShell)
        sh.facade = type("F", (), {"spa": spa})()
        rec = _Rec()
        saved = shell.logger
        shell.logger = rec
        try:
            sh.do_snapshot(name)
        finally:
            shell.logger = saved
        # (the snapshot line, the version lines and the block dump; further informative lines are the writer's choice)
        sx.check(len(rec.lines) >= 8, "hdr.header-and-dump-written", lambda: str(len(rec.lines)))
        snap = GeckoSnapshot()
        for ln in rec.lines:
            line = (PREFIX + ln) if isinstance(ln, str) else _pre(ln)
            snap.parse(line)
        sx.observe("name", snap.name)
        sx.check(snap.name == name, "hdr.name", lambda: f"{snap.name!r} vs {name!r}")
        sx.check(snap.packtype == pack, "hdr.pack-type", lambda: f"{snap.packtype!r}")
        sx.check(tuple(snap._intouch_EN) == (F["en_build"], F["en_major"], F["en_minor"]), "hdr.intouch-en")
        sx.check(tuple(snap._intouch_CO) == (F["co_build"], F["co_major"], F["co_minor"]), "hdr.intouch-co")
        sx.check(snap._config_version == F["cfg"], "hdr.config-version")
        sx.check(snap._log_version == F["log"], "hdr.log-version")
        sx.check((snap._pack_conf_id, snap._pack_conf_rev, snap._pack_conf_rel) == (F["pack_id"], F["pack_rev"], F["pack_rel"]),
                 "hdr.pack-config")
        sx.check(snap.bytes == spa.struct.status_block, "hdr.block-bytes")
    return scenario


def two_spas_one_shell(sx):
    """one shell manages a second spa after the first (`manage 2`): the snapshot written then carries the second
    spa's pack, firmware and versions"""
    import geckolib.utils.shell as shell
    from geckolib.utils.snapshot import GeckoSnapshot

    def spa(i):
        class Spa:
            revision = "39.0"
            intouch_version_en = f"{88 + i} v{15 + i}.{i}"
            intouch_version_co = f"{89 + i} v{11 + i}.{i}"
            pack = ["inXM", "inYJ"][i]
            version = f"{186 + i} v{3 + i}.{i}"
            config_number, config_version, log_version, pack_type = str(5 + i), [9, 62][i], [9, 59][i], [6, 10][i]

            class struct:
                status_block = bytes([i + 1]) * 1024
        return Spa()
    sh = shell.GeckoShell.__new__(shell.GeckoShell)
    order = [0, 1] if sx.choice("order", 2) == 0 else [1, 0]
    saved = shell.logger
    try:
        for i in order:
            sh.facade = type("F", (), {"spa": spa(i)})()        # what do_manage does
            rec = _Rec()
            shell.logger = rec
            sh.do_snapshot(f"spa {i}")
            snap = GeckoSnapshot()
            for ln in rec.lines:
                snap.parse(PREFIX + ln)
            sp = spa(i)
            sx.check(snap.packtype == sp.pack and snap.config_version == sp.config_version
                     and snap.log_version == sp.log_version, "hdr.second-spa.pack-and-versions",
                     lambda: f"spa {i}: {snap.packtype} {snap._config_version}/{snap._log_version}")
            sx.check(snap.intouch_EN == (88 + i, 15 + i, i) and snap.intouch_CO == (89 + i, 11 + i, i), "hdr.second-spa.firmware")
            sx.check(snap.bytes == sp.struct.status_block, "hdr.second-spa.block")
    finally:
        shell.logger = saved


def shell_fmt(fmt, *a):
    """the spa object's own "{0} v{1}.{2}".format(...) strings, on symbolic text"""
    from sx.core import SymBytesBase, Conc, Cat
    if not any(isinstance(x, SymBytesBase) for x in a):
        return fmt.format(*a)
    r = Cat([a[0], Conc(b" v", True), a[1], Conc(b".", True), a[2]]).fold()
    r.is_text = True
    return r


def _pre(ln):
    from sx.core import Conc, Cat
    r = Cat([Conc(PREFIX.encode("latin1"), True), ln]).fold()
    r.is_text = True
    return r


def data_element(sx):
    """one list element through the real hex() / str(list) rendering and the real parser"""
    from geckolib.utils.snapshot import GeckoSnapshot
    b = sx.byte("value")
    hb = hex(int(b))             # hex() needs a concrete int: the engine forks over the 256 values
    line = PREFIX + str(["0x5", hb, "0xff"])
    snap = GeckoSnapshot()
    snap.parse(line)
    sx.check(snap.bytes == bytes([5, int(b), 255]), "dat.element-round-trip", lambda: f"{hb} -> {snap.bytes!r}")


def data_blocks(sx):
    import geckolib.utils.shell as shell
    from geckolib.utils.snapshot import GeckoSnapshot
    import random
    rnd = random.Random(int(os.environ.get("VERIF_SEED", "0") or 0))
    blocks = [bytes(1024), bytes([255]) * 1024, bytes(range(256)) * 4, bytes(rnd.randrange(256) for _ in range(1024))]
    for blk in blocks:
        line = PREFIX + str([hex(x) for x in blk])
        snap = GeckoSnapshot()
        snap.parse(line)
        sx.check(snap.bytes == blk, "dat.block-round-trip")


def traffic_log(sx):
    """a raw traffic log of a transfer reassembles to the transferred block, for non-uniform segment sizes"""
    from geckolib.utils.snapshot import GeckoSnapshot
    from geckolib.driver import GeckoStatusBlockProtocolHandler
    import random
    rnd = random.Random(7)
    # both quote characters, backslashes and every pair of them occur (every full segment also has 0x27 as its
    # length byte); bracketed runs that look like (parts of) a hex list occur too
    raw = bytearray(rnd.randrange(256) for _ in range(1024))
    for off, run in ((500, b"[]"), (520, b"[a]"), (560, b"[\x00]"), (600, b"['0x5']"), (640, b"['0x5', '0x6']"), (1015, b"['0x41']")):
        raw[off:off + len(run)] = run
    for off, pair in ((5, (0x5c, 0x27)), (45, (0x27, 0x5c)), (100, (0x5c, 0x5c)), (200, (0x27, 0x27)), (77, (0x5c, 0x78)),
                      (300, (0x22, 0x27)), (340, (0x5c, 0x22)), (400, (0x22, 0x22))):
        raw[off], raw[off + 1] = pair
    blk = bytes(raw)
    first = [30, 39, 48][sx.choice("first_size", 3)]
    second = [39, 41][sx.choice("second_size", 2)]
    sizes = [first, second]
    while sum(sizes) < 1024:
        sizes.append(min(39, 1024 - sum(sizes)))
    # two connection logs one after the other in the same process, each into its own snapshot object
    for which, blk in enumerate((blk, bytes(reversed(blk)))):
        snap = GeckoSnapshot()
        pos = 0
        for i, sz in enumerate(sizes):
            nxt = 0 if i == len(sizes) - 1 else i + 1
            h = GeckoStatusBlockProtocolHandler.response(i, nxt, blk[pos:pos + sz], parms=(DEST[0], DEST[1], SRC_ID, CLI_ID))
            pos += sz
            line = f"2020-12-12 09:36:48,310 geckolib.driver.udp_socket DEBUG Received {h.send_bytes!r} from ('10.1.2.3', 10022)"
            snap.parse(line)
        sx.observe(f"len{which}", len(snap.bytes))
        sx.check(snap.bytes == blk, "log.reassembles-to-the-transferred-block",
                 lambda: f"log {which}: {len(snap.bytes)} bytes, sizes {sizes[:3]}")


def log_file_round_trip(sx):
    """through a real log file and parse_log_file: blocks whose hex-list line is as long as it can get"""
    import tempfile
    import geckolib.utils.shell as shell
    from geckolib.utils.snapshot import GeckoSnapshot
    blocks = [bytes([255]) * 1024, bytes([0x10]) * 1024, bytes((i * 7 + 16) % 256 | 0x10 for i in range(1024)), bytes(1024)]
    with tempfile.TemporaryDirectory() as d:
        for i, blk in enumerate(blocks):
            path = os.path.join(d, f"log{i}.txt")
            with open(path, "w") as f:
                f.write(PREFIX + "Snapshot (long line)\n")
                for ln in ("intouch version EN 88 v15.0", "intouch version CO 89 v11.0", "Spa pack inYT 375 v6.0",
                           "Config version 61", "Log version 61"):
                    f.write(PREFIX + ln + "\n")
                f.write(PREFIX + str([hex(x) for x in blk]) + "\n")
            snaps = GeckoSnapshot.parse_log_file(path)
            sx.check(len(snaps) == 1 and snaps[0].bytes == blk, "dat.log-file-round-trip",
                     lambda: f"{len(snaps)} snapshots, {len(snaps[0].bytes) if snaps else 0} bytes")
            if snaps:
                sx.check(snaps[0].config_version == 61 and snaps[0].packtype == "inYT", "dat.log-file-header")
        # the same path written again with another capture and parsed again in the same process
        path = os.path.join(d, "log0.txt")
        with open(path, "w") as f:
            f.write(PREFIX + "Snapshot (second capture)\n")
            for ln in ("intouch version EN 88 v15.0", "intouch version CO 89 v11.0", "Spa pack inXM 186 v3.0",
                       "Config version 9", "Log version 9"):
                f.write(PREFIX + ln + "\n")
            f.write(PREFIX + str([hex(x) for x in blocks[1]]) + "\n")
        snaps = GeckoSnapshot.parse_log_file(path)
        sx.check(len(snaps) == 1 and snaps[0].name == "second capture" and snaps[0].bytes == blocks[1]
                 and snaps[0].packtype == "inXM" and snaps[0].config_version == 9, "dat.log-file-parsed-afresh-every-time",
                 lambda: f"{[s_.name for s_ in snaps]}")
        # one log holding several snapshots, taken straight after one another or with other log lines in between
        between = [[], ["2020-12-08 19:53:29,000 geckolib.driver.udp_socket DEBUG Sending ping"],
                   [PREFIX + "some other shell output"]]
        for bi, extra in enumerate(between):
            path = os.path.join(d, f"multi{bi}.txt")
            with open(path, "w") as f:
                for i, blk in enumerate(blocks[:3]):
                    f.write(PREFIX + f"Snapshot (capture {i})\n")
                    for ln in ("intouch version EN 88 v15.0", "intouch version CO 89 v11.0", "Spa pack inYT 375 v6.0",
                               f"Config version 6{i}", f"Log version 5{i}"):
                        f.write(PREFIX + ln + "\n")
                    f.write(PREFIX + str([hex(x) for x in blk]) + "\n")
                    for ln in extra:
                        f.write(ln + "\n")
            snaps = GeckoSnapshot.parse_log_file(path)
            got = [(s_.name, s_.config_version, s_.log_version, s_.bytes) for s_ in snaps if s_.name and s_.name.startswith("capture")]
            exp = [(f"capture {i}", 60 + i, 50 + i, blk) for i, blk in enumerate(blocks[:3])]
            sx.check(got == exp, "dat.log-file-with-several-snapshots",
                     lambda: f"variant {bi}: {[g[:3] for g in got]}")


def same_simulator(sx):
    """one simulator instance loads every shipped file in turn (the `load` command) and serves each one's own data"""
    from geckolib.utils.snapshot import GeckoSnapshot
    from geckolib.utils.simulator import GeckoSimulator
    from geckolib.utils.shared_command import GeckoCmd
    from geckolib.driver import GeckoVersionProtocolHandler, GeckoConfigFileProtocolHandler, GeckoStatusBlockProtocolHandler
    from .c01 import _serve
    import io
    import contextlib
    GeckoCmd._init_logging = lambda self: None
    sim = GeckoSimulator()
    P = (DEST[0], DEST[1], SRC_ID, CLI_ID)
    n = 0
    for path in sorted(glob.glob(os.path.join(SNAPDIR, "*.snapshot"))):
        snaps = GeckoSnapshot.parse_log_file(path)
        if len(snaps) != 1:
            continue            # `load` refuses files holding several snapshots
        s = snaps[0]
        with contextlib.redirect_stdout(io.StringIO()):
            sim.do_load(path)
        n += 1
        r = _serve(sim, GeckoVersionProtocolHandler.request(1, parms=P).send_bytes)
        h = GeckoVersionProtocolHandler()
        h.handle(r[0], P)
        ok = (h.en_build, h.en_major, h.en_minor) == s.intouch_EN
        r = _serve(sim, GeckoConfigFileProtocolHandler.request(2, parms=P).send_bytes)
        h = GeckoConfigFileProtocolHandler()
        h.handle(r[0], P)
        ok = ok and (h.plateform_key, h.config_version, h.log_version) == (s.packtype, s.config_version, s.log_version)
        r = _serve(sim, GeckoStatusBlockProtocolHandler.full_request(3, parms=P).send_bytes)
        got = b""
        for seg in r:
            h = GeckoStatusBlockProtocolHandler()
            h.handle(seg, P)
            got += h.data
        ok = ok and got == s.bytes
        sx.check(ok, "file.same-simulator-serves-the-file-just-loaded", lambda: os.path.basename(path))
    sx.check(n >= 30, "file.same-simulator-loaded-the-files")


def shipped_file(path):
    def scenario(sx):
        from geckolib.utils.snapshot import GeckoSnapshot
        from geckolib.utils.simulator import GeckoSimulator
        from geckolib.utils.shared_command import GeckoCmd
        from geckolib.driver import (GeckoVersionProtocolHandler, GeckoConfigFileProtocolHandler,
                                     GeckoStatusBlockProtocolHandler)
        from .c01 import _serve
        GeckoCmd._init_logging = lambda self: None
        snaps = GeckoSnapshot.parse_log_file(path)
        sx.check(len(snaps) >= 1, "file.parses")
        P = (DEST[0], DEST[1], SRC_ID, CLI_ID)
        for s in snaps:
            sx.check(len(s.bytes) == 1024, "file.block-is-1024-bytes", lambda: str(len(s.bytes)))
            sim = GeckoSimulator()
            sim.set_snapshot(s)
            sx.check(getattr(sim, "log_class", None) is not None and sim.log_class.version == s.log_version
                     and sim.config_class.version == s.config_version, "file.simulator-loads-the-matching-tables",
                     lambda: f"{s.packtype} cfg {s.config_version} log {s.log_version}")
            sx.check(len(sim.structure.accessors) > 50, "file.simulator-has-accessors")
            r = _serve(sim, GeckoVersionProtocolHandler.request(1, parms=P).send_bytes)
            h = GeckoVersionProtocolHandler()
            h.handle(r[0], P)
            sx.check((h.en_build, h.en_major, h.en_minor) == s.intouch_EN and (h.co_build, h.co_major, h.co_minor) == s.intouch_CO,
                     "file.versions-served")
            r = _serve(sim, GeckoConfigFileProtocolHandler.request(2, parms=P).send_bytes)
            h = GeckoConfigFileProtocolHandler()
            h.handle(r[0], P)
            sx.check((h.plateform_key, h.config_version, h.log_version) == (s.packtype, s.config_version, s.log_version),
                     "file.config-files-served")
            r = _serve(sim, GeckoStatusBlockProtocolHandler.full_request(3, parms=P).send_bytes)
            got = b""
            for i, seg in enumerate(r):
                h = GeckoStatusBlockProtocolHandler()
                h.handle(seg, P)
                sx.check(h.sequence == i and h.next == (0 if i == len(r) - 1 else i + 1), "file.chain-well-formed")
                got += h.data
            sx.check(got == s.bytes, "file.block-served-unchanged")
            # later, partial requests (what a client's refresh sends): the log window of the tables, and the block's tail
            for (st_, ln_) in ((sim.log_class.begin, sim.log_class.end - sim.log_class.begin), (1000, 24), (39, 40)):
                r = _serve(sim, GeckoStatusBlockProtocolHandler.request(4, st_, ln_, parms=P).send_bytes)
                got = b""
                for seg in r:
                    h = GeckoStatusBlockProtocolHandler()
                    h.handle(seg, P)
                    got += h.data
                sx.check(got[:ln_] == s.bytes[st_:st_ + ln_], "file.partial-range-served-unchanged", lambda: f"({st_},{ln_})")
    return scenario


def units(tier):
    q = tier == "quick"
    maxname = 3 if q else 4
    for n in range(maxname + 1):
        yield Unit(f"header.name-len{n}", header(maxname), presets={"name_len": n}, max_paths=400000, max_depth=6000,
                   max_fanout=400)
    yield Unit("two-spas-one-shell", two_spas_one_shell, validate=False)
    yield Unit("data-element", data_element, max_fanout=400)
    yield Unit("data-blocks", data_blocks, validate=False)
    yield Unit("traffic-log", traffic_log, validate=False)
    yield Unit("log-file-round-trip", log_file_round_trip, validate=False)
    yield Unit("same-simulator", same_simulator, validate=False)
    for f in sorted(glob.glob(os.path.join(SNAPDIR, "*.snapshot"))):
        yield Unit("file." + os.path.basename(f)[:-9].replace(" ", "_"), shipped_file(f), validate=False)
