"""C07 - dispatch: each datagram consumed once, only by a capable, addressed consumer.

Decided inductively over atomic segments (asyncio interleaves tasks only at awaits
that suspend): one Handle._run() of every real consumer that the real
GeckoAsyncSpa._connect registers, from an arbitrary queue / mark pre-state with a
symbolic head datagram; the unhandled consumer's two segments against every class
of interference; mis-addressed framed packets; a bounded run for the head age.
"""
from __future__ import annotations

from .common import Unit, SRC_ID, CLI_ID, DEST, frame

PROPERTY = "C07"
FUNCTIONS = ["AsyncPeekableQueue.head/pop/mark/is_marked", "GeckoUdpProtocolHandler.consume (one iteration)",
             "GeckoUdpProtocolHandler.wait_for_response (one iteration)", "GeckoUnhandledProtocolHandler.consume (both segments)",
             "GeckoAsyncSpa._connect (consumer registration)", "GeckoAsyncSpa._async_on_packet/_async_on_rferr/_async_on_wcerr/"
             "_async_on_partial_status_update", "GeckoPacketProtocolHandler.can_handle/handle",
             "GeckoAsyncPartialStatusBlockProtocolHandler.can_handle/async_handle", "GeckoRFErrProtocolHandler", "GeckoWatercareErrorHandler"]
BOUNDS = {"head datagram": "symbolic bytes, length in {0, 5, 6, 9, 24} (thorough: 12 lengths 0..24) ({0, 5, 6, 10} for the partial-update consumer); framed packets: identifiers 3 symbolic bytes, payload 6 symbolic bytes",
          "queue": "0..2 further datagrams behind the head; mark flag both ways",
          "run": "6 (thorough 9) segments of the unhandled consumer against an arbitrary environment action at every await"}
ASSUMPTIONS = [
    "asyncio interleaves tasks only at suspending awaits, so one Handle._run() is atomic; the step from the segment results "
    "to the whole-system statement is this atomicity argument",
    "interference with the unhandled consumer between its two segments falls into four classes with respect to 'is the "
    "marked item still the head and is the mark still set': none / a capable consumer's pop / a network put / pop then put",
    "wall-clock jitter larger than a polling interval is outside the claim",
]
SITES = ["seg.*", "unh.*", "adr.*", "age.*"]
PARMS = (DEST[0], DEST[1], SRC_ID, CLI_ID)


class TM:
    unique_id, spa_name = "u", "n"

    def __init__(self):
        self.coros = []

    def add_task(self, coro, name, key):
        self.coros.append((name, coro))

    def cancel_key_tasks(self, key):
        pass


def connect_world(sx):
    """run the real _connect far enough to register its consumers; return (loop, spa, proto, consumers)"""
    import asyncio
    from sx.vloop import VLoop
    from geckolib.async_spa import GeckoAsyncSpa
    from geckolib.async_spa_descriptor import GeckoAsyncSpaDescriptor
    loop = VLoop()
    tm = TM()
    events = []

    async def ev(e, **k):
        events.append(e)
    spa = GeckoAsyncSpa(CLI_ID, GeckoAsyncSpaDescriptor(SRC_ID, "spa", DEST), tm, ev)
    spa.struct.set_status_block(sx.block("client_block", 1024))
    t = loop.create_task(spa._connect())
    loop.run_until(lambda: len(tm.coros) >= 7 or t.done(), max_time=5.0)
    t.cancel()
    loop.run_until(t.done, max_time=6.0)
    consumers = {}
    for name, coro in tm.coros:
        h = coro.cr_frame.f_locals.get("self") if coro.cr_frame is not None else None
        if coro.cr_code.co_name == "consume":
            consumers[type(h).__name__] = h
        coro.close()
    return loop, spa, spa._protocol, consumers, events


def accepts(cls, data):
    """independent verb table"""
    if cls == "GeckoUnhandledProtocolHandler":
        return True
    if cls == "GeckoPacketProtocolHandler":
        return data.startswith(b"<PACKT>") & data.endswith(b"</PACKT>")
    verbs = {"GeckoAsyncPartialStatusBlockProtocolHandler": (b"STATQ", b"STATP"), "GeckoRFErrProtocolHandler": (b"RFERR",),
             "GeckoWatercareErrorHandler": (b"WCERR",), "GeckoVersionProtocolHandler": (b"AVERS", b"SVERS")}[cls]
    from sx.core import Or
    r = False
    for v in verbs:
        r = Or(r, data.startswith(v)) if not isinstance(r, bool) or r else data.startswith(v)
    return r


def _startswith(data, v):
    return data.startswith(v) if not isinstance(data, bytes) else data.startswith(v)


HEAD_LENS = [0, 5, 6, 9, 24]


def _fill_queue(sx, proto, lens=None):
    lens = lens or HEAD_LENS
    n = lens[sx.choice("head_len", len(lens))]
    head = sx.bytes_("head", n)
    proto.datagram_received(head, PARMS)
    extra = sx.choice("behind", 3)
    for i in range(extra):
        proto.datagram_received(b"XTRA%d" % i, PARMS)
    if sx.choice("marked", 2):
        proto.queue.mark()
    return head, extra


def consumer_segment(cls):
    def scenario(sx):
        from sx.vloop import patched_time
        loop, spa, proto, consumers, events = connect_world(sx)
        with patched_time(loop):
            h = consumers[cls]
            # (the partial-update consumer parses its payload: at most one change record keeps the paths few)
            head, extra = _fill_queue(sx, proto, [0, 5, 6, 10] if "Partial" in cls else None)
            was_marked = proto.queue.is_marked
            size0 = proto.queue.qsize()
            blk0 = spa.struct.status_block
            t = loop.create_task(h.consume(proto))
            crashed = None
            loop.step()          # exactly one atomic segment of the consumer
            if t.done() and not t.cancelled() and t.exception() is not None:
                crashed = t.exception()
            size1 = proto.queue.qsize()
            can = accepts(cls, head)
            popped = size0 - size1
            # a consumer that re-queues (the packet consumer delivers the payload) adds at the tail
            requeued = 0
            if cls == "GeckoPacketProtocolHandler" and popped <= 0 and bool(can):
                requeued = 1 - popped
                popped = 1
            sx.observe("popped", popped)
            if bool(can):
                sx.check(popped == 1, "seg.capable-consumer-takes-the-head-once", lambda: f"{popped}")
                sx.check(not proto.queue.is_marked, "seg.pop-clears-the-mark")
                if size1 - requeued > 0:
                    sx.check(proto.queue.head[0] == b"XTRA0", "seg.only-the-head-was-taken")
            else:
                sx.check(popped == 0 and size1 == size0, "seg.incapable-consumer-leaves-the-queue-alone")
                sx.check(proto.queue.is_marked == was_marked, "seg.incapable-consumer-leaves-the-mark-alone")
                sx.check(proto.queue.head[0] is head, "seg.head-unchanged")
                sx.check(crashed is None, "seg.incapable-consumer-does-not-fail", lambda: repr(crashed))
                sx.check(spa.struct.status_block is blk0 and not events, "seg.no-effect-without-consumption")
        loop.cancel_all()
    return scenario


def waiter_segment(sx):
    """wait_for_response of an in-flight request: same obligations as a consumer"""
    from sx.vloop import patched_time
    from geckolib.driver import GeckoVersionProtocolHandler
    loop, spa, proto, consumers, events = connect_world(sx)
    with patched_time(loop):
        req = GeckoVersionProtocolHandler.request(1, parms=PARMS)
        head, extra = _fill_queue(sx, proto)
        was_marked = proto.queue.is_marked
        size0 = proto.queue.qsize()
        t = loop.create_task(req.wait_for_response(proto))
        loop.step()
        can = accepts("GeckoVersionProtocolHandler", head)
        popped = size0 - proto.queue.qsize()
        if bool(can):
            sx.check(popped == 1 and not proto.queue.is_marked, "seg.waiter-takes-its-reply-once")
        else:
            sx.check(popped == 0 and proto.queue.is_marked == was_marked, "seg.waiter-leaves-foreign-datagrams")
            sx.check(not t.done(), "seg.waiter-keeps-waiting")
    loop.cancel_all()


def unhandled_segments(sx):
    """segment A marks only; after any interference, segment B pops iff still marked, and pops the marked item"""
    from sx.vloop import patched_time
    loop, spa, proto, consumers, events = connect_world(sx)
    with patched_time(loop):
        u = consumers["GeckoUnhandledProtocolHandler"]
        n0 = sx.choice("queued", 3)
        same = bool(sx.choice("byte_identical_datagrams", 2))    # a duplicated frame, a repeated RFERR
        for i in range(n0):
            proto.datagram_received(b"SAME" if same else b"ITEM%d" % i, PARMS)
        t = loop.create_task(u.consume(proto))
        loop.step()                       # segment A
        size_a = proto.queue.qsize()
        sx.check(size_a == n0, "unh.segment-A-pops-nothing")
        sx.check(proto.queue.is_marked == (n0 > 0), "unh.segment-A-marks-iff-something-is-queued")
        marked_item = proto.queue.head
        # interference while the unhandled consumer sleeps
        k = sx.choice("interference", 4)
        if k in (1, 3) and proto.queue.qsize():
            proto.queue.pop()                  # a capable consumer took the head
        if k in (2, 3):
            proto.datagram_received(b"SAME" if same else b"LATER", PARMS)
        head_b = proto.queue.head
        size_b = proto.queue.qsize()
        # independent of the queue's own bookkeeping: the mark survives iff something was marked and nobody took it
        still = n0 > 0 and k in (0, 2)
        sx.check(proto.queue.is_marked == still, "unh.mark-cleared-exactly-by-a-pop")
        loop.step()                            # the clock advances to t = 0.1 and segment B runs
        popped = size_b - proto.queue.qsize()
        sx.observe("popped", popped)
        if still:
            sx.check(popped == 1, "unh.segment-B-discards-the-unclaimed-datagram")
            sx.check(head_b is marked_item, "unh.the-discarded-item-is-the-marked-one")
        else:
            sx.check(popped == 0, "unh.segment-B-leaves-a-claimed-or-new-head", lambda: f"interference={k} popped={popped}")
        loop.step()
        sx.check(not t.done(), "unh.consumer-keeps-running", lambda: repr(t))
    loop.cancel_all()


def slow_callback(sx):
    """the application's event handler suspends for several polling intervals inside the RFERR consumer's
    on-handled callback while the unhandled consumer keeps running and more datagrams arrive: every datagram
    still leaves the queue exactly once and only through a consumer that accepts it"""
    import asyncio
    from sx.vloop import VLoop, patched_time
    from geckolib.async_spa import GeckoAsyncSpa
    from geckolib.async_spa_descriptor import GeckoAsyncSpaDescriptor
    from geckolib.driver import GeckoAsyncUdpProtocol, GeckoRFErrProtocolHandler, GeckoUnhandledProtocolHandler
    loop = VLoop()
    with patched_time(loop):
        delay = [0.0, 0.25, 0.45][sx.choice("handler_suspends_for", 3)]
        events = []

        async def ev(e, **k):
            events.append(e)
            if delay:
                await asyncio.sleep(delay)
        spa = GeckoAsyncSpa(CLI_ID, GeckoAsyncSpaDescriptor(SRC_ID, "spa", DEST), None, ev)
        proto = GeckoAsyncUdpProtocol(None, DEST)
        spa._protocol = proto
        pops = []
        orig_pop = proto.queue.pop

        def pop():
            pops.append((proto.queue.head[0], asyncio.current_task().get_name()))
            return orig_pop()
        proto.queue.pop = pop
        rf = GeckoRFErrProtocolHandler(async_on_handled=spa._async_on_rferr)
        un = GeckoUnhandledProtocolHandler()
        second = [b"RFERR", b"WHAT?", b"WCERR"][sx.choice("second_datagram", 3)]
        gap = [0.05, 0.15, 0.3][sx.choice("second_arrives_after", 3)]

        async def main():
            t1 = asyncio.create_task(rf.consume(proto), name="rferr")
            t2 = asyncio.create_task(un.consume(proto), name="unhandled")
            proto.datagram_received(b"RFERR", PARMS)
            await asyncio.sleep(gap)
            proto.datagram_received(second, PARMS)
            await asyncio.sleep(1.5)
            t1.cancel()
            t2.cancel()
        loop.run_until_complete(main(), max_time=30.0)
        sx.observe("pops", [(d, n) for d, n in pops])
        got = [d for d, n in pops]
        sx.check(sorted(got) == sorted([b"RFERR", second]), "seg.every-datagram-leaves-the-queue-exactly-once", lambda: str(pops))
        for d, n in pops:
            ok = (n == "unhandled") or (n == "rferr" and d == b"RFERR")
            sx.check(ok, "seg.only-a-capable-consumer-takes-a-datagram", lambda: f"{d} popped by {n}")
        # (a datagram that arrives while its consumer is busy in a slow callback may be discarded as unhandled:
        #  the property allows either exit, but not both and not twice)
        nrf = len([1 for d, n in pops if n == "rferr"])
        sx.check(len(events) == nrf, "seg.each-consumed-rferr-handled-exactly-once", lambda: f"{len(events)} events for {nrf} RFERR")
        sx.check(proto.queue.qsize() == 0, "seg.queue-drained")
    loop.cancel_all()


def misaddressed(sx):
    """a framed packet whose identifier pair is not this connection's has no effect"""
    from sx.vloop import patched_time
    loop, spa, proto, consumers, events = connect_world(sx)
    with patched_time(loop):
        h = consumers["GeckoPacketProtocolHandler"]
        src = b"SPA" + sx.bytes_("src", 3)
        dst = b"IOS" + sx.bytes_("dst", 3)
        from .c04 import ident_ok
        sx.assume(ident_ok(src) & ident_ok(dst))
        spa.descriptor.identifier = b"SPAabc"
        spa.client_id = b"IOSxyz"
        payload = b"STATP\x01" + sx.bytes_("payload", 4)
        wire = frame(payload, src, dst)
        malformed = bool(sx.choice("malformed_inner_framing", 2))
        if malformed:
            wire = b"<PACKT>" + sx.bytes_("junk", 12) + b"</PACKT>"
        sender_ok = bool(sx.choice("from_spa_address", 2))
        sender = DEST if sender_ok else ("10.9.9.9", 10022)
        t = loop.create_task(h.consume(proto))
        if sx.choice("after_a_valid_packet", 2):
            # the long-lived consumer has just handled a correctly addressed packet
            proto.datagram_received(frame(b"RFERR", b"SPAabc", b"IOSxyz"), DEST)
            loop.step()
            sx.check(proto.queue.qsize() == 1 and proto.queue.head[0] == b"RFERR", "adr.own-packet-is-delivered-to-the-queue")
            proto.queue.pop()
        proto.datagram_received(wire, sender)
        blk0 = spa.struct.status_block
        loop.step()
        if malformed:
            from sx.core import And
            j = wire[7:-8]
            # junk that happens to be a complete, correctly addressed inner frame is not malformed
            ours = False
        else:
            ours = (src == b"SPAabc") & (dst == b"IOSxyz")
        mine = bool(ours) and sender_ok
        q = proto.queue.qsize()
        sx.observe("requeued", q)
        if mine:
            sx.check(q == 1 and proto.queue.head[0] == payload, "adr.own-packet-is-delivered-to-the-queue")
        else:
            sx.check(q == 0, "adr.foreign-packet-is-dropped", lambda: f"src={src!r} dst={dst!r} sender={sender}")
            sx.check(spa.struct.status_block is blk0 and not events, "adr.foreign-packet-has-no-effect")
    loop.cancel_all()


def head_age(sx):
    """real unhandled consumer for 4 segments; at every await the environment does anything: the head never
    stays longer than a few polling intervals"""
    from sx.vloop import patched_time
    loop, spa, proto, consumers, events = connect_world(sx)
    with patched_time(loop):
        u = consumers["GeckoUnhandledProtocolHandler"]
        born = {}
        serial = [0]

        def put():
            serial[0] += 1
            d = b"D%d" % serial[0]
            born[d] = loop.time()
            proto.datagram_received(d, PARMS)
        if sx.choice("initial", 2):
            put()
        if sx.choice("request_in_flight", 2):
            # a get() waiter holds the connection for the whole run (and takes nothing: its reply never comes)
            loop.run_until_complete(proto.Lock.acquire(), max_time=1.0)
        task = loop.create_task(u.consume(proto))
        worst = 0.0
        cur = [None, 0.0]          # (datagram at the head, since when)

        def measure():
            h = proto.queue.head[0] if proto.queue.qsize() else None
            if h != cur[0]:
                cur[0], cur[1] = h, loop.time()
            return (loop.time() - cur[1]) if h is not None else 0.0
        measure()
        for step in range(RUN_STEPS[0]):
            # the environment acts while the consumer is suspended, then the consumer runs one segment
            a = sx.choice(f"env{step}", 3)
            if a == 1:
                put()
            elif a == 2 and proto.queue.qsize():
                proto.queue.pop()
            worst = max(worst, measure())
            t_before = loop.time()
            loop.step()
            # time spent at the head up to the instant the consumer ran
            if cur[0] is not None:
                worst = max(worst, loop.time() - cur[1])
            measure()
        sx.check(not task.done(), "age.unhandled-consumer-keeps-running", lambda: repr(task))
        sx.observe("worst", round(worst, 3))
        sx.check(worst <= 0.3 + 1e-9, "age.head-never-older-than-three-polling-intervals", lambda: str(worst))
    loop.cancel_all()


CONSUMERS = ["GeckoUnhandledProtocolHandler", "GeckoPacketProtocolHandler", "GeckoAsyncPartialStatusBlockProtocolHandler",
             "GeckoRFErrProtocolHandler", "GeckoWatercareErrorHandler"]


RUN_STEPS = [6]


def two_connections(sx):
    """a second connection in the same process (another spa, the locator, a reconnect): what arrives on one is never
    visible to the consumers of the other"""
    from geckolib.driver import GeckoAsyncUdpProtocol
    from sx.vloop import VLoop, FakeDatagramTransport
    loop = VLoop()
    a = GeckoAsyncUdpProtocol(None, DEST)
    b = GeckoAsyncUdpProtocol(None, DEST)
    for p_ in (a, b):
        p_.connection_made(FakeDatagramTransport(loop, p_, lambda tr, d, ad: None))
    n = 1 + sx.choice("datagrams", 3)
    for i in range(n):
        a.datagram_received(b"RFERR" + sx.bytes_(f"d{i}", 1), PARMS)
    sx.check(a.queue.qsize() == n and b.queue.qsize() == 0, "adr.connections-have-their-own-queues",
             lambda: f"{a.queue.qsize()} / {b.queue.qsize()}")
    b.queue.mark() if b.queue.qsize() else None
    sx.check(not a.queue.is_marked, "adr.connections-have-their-own-marks")
    loop.cancel_all()


def registration(sx):
    loop, spa, proto, consumers, events = connect_world(sx)
    sx.check(sorted(consumers) == sorted(CONSUMERS), "seg.connect-registers-the-expected-consumers", lambda: str(sorted(consumers)))
    loop.cancel_all()


def units(tier):
    global HEAD_LENS
    HEAD_LENS = [0, 5, 6, 9, 24] if tier == "quick" else [0, 1, 4, 5, 6, 7, 8, 9, 13, 15, 16, 24]
    yield Unit("registration", registration)
    yield Unit("two-connections", two_connections)
    for c in CONSUMERS[1:]:
        yield Unit(f"segment.{c[5:-15]}", consumer_segment(c), max_paths=50000)
    yield Unit("segment.waiter", waiter_segment, max_paths=50000)
    yield Unit("unhandled.two-segments", unhandled_segments)
    yield Unit("slow-callback", slow_callback)
    yield Unit("misaddressed", misaddressed, max_paths=50000)
    RUN_STEPS[0] = 6 if tier == "quick" else 9
    yield Unit("head-age", head_age, max_paths=100000)
