"""C03 - change notifications fire exactly once, iff the decoded value changed.

Real replace_status_block_segment (both structure classes) + real
status_block_changed + real Observable, on a symbolic old block, a symbolic patch
(offset, 1..4 bytes) and a shipped accessor object placed at a symbolic position.
"""
from __future__ import annotations

import copy

from .common import Unit
from . import c02, refmodel

PROPERTY = "C03"
FUNCTIONS = [
    "GeckoStructure.replace_status_block_segment", "GeckoAsyncStructure.replace_status_block_segment",
    "GeckoStructAccessor.status_block_changed", "GeckoStructAccessor._get_value/_get_raw_value",
    "GeckoTempStructAccessor._get_value", "Observable.watch/unwatch/unwatch_all/_on_change",
]


def bounds(tier):
    return {"patch": "offset symbolic in 0..1024-n, n in 1..4 symbolic bytes (covers partial updates, straddling "
                     "patches and a refresh of the item's whole neighbourhood)",
            "item": "one representative per (class, width, bit position, mask, duplicate-labels) shape at a symbolic "
                    "position; enums with <= %d labels" % (9 if tier == "quick" else 64),
            "update sequences": "three updates in a row (the first covering the item), each one of the ranges (5,1) (6,2) (5,3) (7,1) (4,3) with "
                                "symbolic bytes, on a temperature item at bytes 6-7 with TempUnits at byte 5, and on a word item",
            "refresh path": "two full refreshes in a row through the real transfer code of either class (the first one of "
                            "the connection included), the watched word in the 2nd or 3rd segment",
            "observers": "two observers, one of them registered twice, in the item units; every watch/unwatch script "
                         "of <= %d operations over two observers in the observable unit" % (4 if tier == "quick" else 5)}


ASSUMPTIONS = [
    "a patch never grows the block (offset + n <= 1024)",
    "decoded values of the oracle come from an independent reference decoder (checks/refmodel.py)",
    "floats are compared through their integer numerators (ratio abstraction n/c): exact for the time item's "
    "division by 256, justified for temperatures by the strict-monotonicity lemma discharged in C14 (monotone.*)",
    "items do not interact: the structure calls each accessor once per update (asserted with two items present)",
]
SITES = ["ntf.*", "obs.*", "two.*"]


def shapes(tier):
    sigs, reps = c02.signatures()
    out = {}
    for s, m in sigs.items():
        cls, typ, bitpos, items, length, fmt, maxitems, mask, rw = s
        dup = items is not None and len(set(items)) < len(items)
        sh = (cls, length, bitpos, mask, dup)
        k = len(items) if items else 0
        cand = (k, c02.sig_name(s, m), s)
        if sh not in out or cand < out[sh]:
            out[sh] = cand
    cap = 9 if tier == "quick" else 64
    return {sh: v for sh, v in out.items() if v[0] <= cap}


def _tempunits():
    """A real TempUnits accessor (whole-byte enum F/C) for the temperature items."""
    sigs, reps = c02.signatures()
    for s, m in sigs.items():
        if any(tag == "TempUnits" for (_, tag, _) in m) and s[2] is None:
            return reps[s]
    raise RuntimeError("no TempUnits item")


def notify(sig, async_):
    def scenario(sx):
        from geckolib.driver import GeckoStructure, GeckoAsyncStructure
        from sx.core import Ite
        sigs, reps = c02.signatures()
        a0 = reps[sig]
        n = 1 + sx.choice("patch_len", 4)
        old = sx.block("old", 1024)
        patch = sx.bytes_("patch", n)
        offset = sx.int_("offset", 0, 1024 - n)
        pos = sx.int_("pos", 0, 1024 - a0.length)
        st = GeckoAsyncStructure(None, None) if async_ else GeckoStructure(None)
        st.set_status_block(old)
        acc = copy.copy(a0)
        acc._observers = []
        acc.struct = st
        acc.pos = pos
        st.accessors = {"item": acc}
        is_temp = type(a0).__name__ == "GeckoTempStructAccessor"
        if is_temp:
            tu = copy.copy(_tempunits())
            tu._observers = []
            tu.struct = st
            tu.pos = 5   # fixed: patches with offset <= 5 still reach it
            st.accessors["TempUnits"] = tu
        calls = []

        class Client:
            """observers are bound methods, as in the library's own `x.watch(self._on_change)`"""

            def __init__(self, name):
                self.name = name

            def on_change(self, sender, ov, nv):
                calls.append((self.name, sender, ov, nv, st.status_block))

        c1, c2 = Client("o1"), Client("o2")
        acc.watch(c1.on_change)
        acc.watch(c2.on_change)
        acc.watch(c1.on_change)   # registered twice (an equal, not identical, bound method): called once
        st.replace_status_block_segment(offset, patch)
        new = st.status_block
        rec = refmodel.record_of(a0)
        changed = refmodel.decoded_differs(rec, old, new, pos)
        ncalls = len(calls)
        sx.observe("ncalls", ncalls)
        sx.check(Ite(changed, 2, 0) == ncalls, "ntf.iff-decoded-changed",
                 lambda: f"calls={ncalls} changed={changed}")
        if ncalls:
            sx.check(ncalls == 2 and [c[0] for c in calls] == ["o1", "o2"], "ntf.once-per-observer")
            for c in calls:
                sx.check(c[1] is acc, "ntf.sender")
                sx.check(c[4] is new, "ntf.observer-sees-new-block")
            ov, nv = calls[0][2], calls[0][3]
            sx.observe("args", (ov, nv))
            if a0.type == "Enum":
                io, inw = refmodel.raw(rec, old, pos), refmodel.raw(rec, new, pos)
                sx.check(refmodel.enum_class(rec, io) == _cls_of(rec, ov), "ntf.old-value")
                sx.check(refmodel.enum_class(rec, inw) == _cls_of(rec, nv), "ntf.new-value")
            elif a0.type == "Bool":
                sx.check((refmodel.raw(rec, old, pos) == 1) == ov, "ntf.old-value")
                sx.check((refmodel.raw(rec, new, pos) == 1) == nv, "ntf.new-value")
            elif a0.type == "Time":
                ro, rn = refmodel.raw(rec, old, pos), refmodel.raw(rec, new, pos)
                sx.check(ov == _time(sx, ro), "ntf.old-value")
                sx.check(nv == _time(sx, rn), "ntf.new-value")
            elif is_temp:
                ro, rn = refmodel.raw(rec, old, pos), refmodel.raw(rec, new, pos)
                isc = bool(st.accessors["TempUnits"].value == "C")
                sx.check_same(ov, _temp(ro, isc), "ntf.old-value")
                sx.check_same(nv, _temp(rn, isc), "ntf.new-value")
            else:
                sx.check(refmodel.raw(rec, old, pos) == ov, "ntf.old-value")
                sx.check(refmodel.raw(rec, new, pos) == nv, "ntf.new-value")
        # nothing but the patched range changed
        sx.check_bytes_equal(new, old, "ntf.prefix-untouched", 0, offset)
        sx.check_bytes_equal(new[offset:offset + n], patch, "ntf.patch-installed")
    return scenario


def update_sequence(sig, async_, steps, repeats=False):
    """several updates in a row on one structure (any sequence of updates): at every one of them the item notifies iff
    its stored reading differs between the block before and the block after *that* update.  For a temperature the
    TempUnits byte sits next to it, so that updates may switch the unit between two updates of the reading."""
    def scenario(sx):
        from geckolib.driver import GeckoStructure, GeckoAsyncStructure
        from sx.core import Ite
        sigs, reps = c02.signatures()
        a0 = reps[sig]
        st = GeckoAsyncStructure(None, None) if async_ else GeckoStructure(None)
        old = sx.block("old", 1024)
        st.set_status_block(old)
        acc = copy.copy(a0)
        acc._observers = []
        acc.struct = st
        acc.pos = 6
        st.accessors = {"item": acc}
        if type(a0).__name__ == "GeckoTempStructAccessor":
            tu = copy.copy(_tempunits())
            tu._observers = []
            tu.struct = st
            tu.pos = 5
            st.accessors["TempUnits"] = tu
        calls = []
        acc.watch(lambda s_, o, n_: calls.append((o, n_)))
        rec = refmodel.record_of(a0)
        for k in range(steps):
            # the unit byte alone, the item alone, both, one byte of the item, a straddling pair
            # (the first update covers the whole item)
            ranges = [(5, 1), (6, 2), (5, 3), (7, 1), (4, 3)] if k else [(6, 2), (5, 3)]
            if k == 2 and repeats and sx.choice("third_update_repeats_the_first", 2):
                offset, n, patch = first           # the very same partial update again, after a different one
            else:
                offset, n = ranges[sx.choice(f"range{k}", len(ranges))]
                patch = sx.bytes_(f"patch{k}", n)
            if k == 0:
                first = (offset, n, patch)
            before = st.status_block
            del calls[:]
            st.replace_status_block_segment(offset, patch)
            after = st.status_block
            changed = refmodel.decoded_differs(rec, before, after, 6)
            sx.observe(f"calls{k}", len(calls))
            sx.check(Ite(changed, 1, 0) == len(calls), "ntf.sequence.iff-stored-reading-changed",
                     lambda: f"update {k}: calls={len(calls)} changed={changed}")
    return scenario


def refresh_path(async_):
    """a full refresh arriving through the real transfer path (retry_request/_on_status_block_received of the
    threaded class, get() of the asyncio class) against the real simulator's chain: the first refresh of a
    connection and a later one both notify the watched item iff its value differs, once"""
    def scenario(sx):
        from sx.vloop import VLoop, patched_time, FakeDatagramTransport
        from sx.core import Ite
        from geckolib.config import GeckoConfig
        from geckolib.driver import (GeckoStructure, GeckoAsyncStructure, GeckoAsyncUdpProtocol, GeckoWordStructAccessor,
                                     GeckoStatusBlockProtocolHandler)
        from .c01 import _mk_sim, _serve, _Sock, PARMS
        from .common import DEST
        loop = VLoop()
        saved = GeckoConfig.PROTOCOL_TIMEOUT_IN_SECONDS
        GeckoConfig.PROTOCOL_TIMEOUT_IN_SECONDS = 0.25
        try:
            with patched_time(loop):
                pos = 40 + sx.choice("item_in_segment", 2) * 39      # in the second or the third segment
                first = sx.bytes_("client_word", 2)
                blocks = [sx.bytes_(f"spa_word{k}", 2) for k in range(2)]
                C = bytes(pos) + first + bytes(1024 - pos - 2)
                st = GeckoAsyncStructure(None, None) if async_ else GeckoStructure(None)
                st.set_status_block(C)
                acc = GeckoWordStructAccessor(st, "W", pos, None)
                st.accessors = {"W": acc}
                calls = []
                acc.watch(lambda s_, o, n_: calls.append((o, n_)))
                proto = None
                cur = {}
                if async_:
                    proto = GeckoAsyncUdpProtocol(None, DEST)

                    def on_send(tr, data, addr):
                        for seg in _serve(cur["sim"], data):
                            proto.datagram_received(seg, PARMS)
                    proto.connection_made(FakeDatagramTransport(loop, proto, on_send))
                sock = _Sock()
                before = first
                for k in range(2):
                    S = bytes(pos) + blocks[k] + bytes(1024 - pos - 2)
                    cur["sim"] = _mk_sim(S)
                    del calls[:]
                    if async_:
                        ok = loop.run_until_complete(st.get(
                            proto, lambda: GeckoStatusBlockProtocolHandler.full_request(
                                proto.get_and_increment_sequence_counter(False), parms=PARMS), 2), max_time=60.0 * (k + 1))
                    else:
                        req = GeckoStatusBlockProtocolHandler.full_request(k + 1, parms=PARMS)
                        n0 = len(sock.sends)
                        st.retry_request(sock, req, PARMS)
                        h, dest = sock.sends[n0]
                        h.last_destination = dest
                        for seg in _serve(cur["sim"], h.send_bytes):
                            if req.should_remove_handler:
                                break
                            req.handle(seg, PARMS)
                            req.handled(PARMS)
                        ok = req.should_remove_handler
                    sx.check(bool(ok), "ntf.refresh.transfer-completes")
                    changed = (before[0] != blocks[k][0]) | (before[1] != blocks[k][1])
                    sx.observe(f"calls{k}", len(calls))
                    sx.check(Ite(changed, 1, 0) == len(calls), "ntf.refresh.iff-value-changed",
                             lambda: f"refresh {k}: calls={len(calls)} changed={changed}")
                    sx.check(acc.value == blocks[k][0] * 256 + blocks[k][1], "ntf.refresh.new-block-visible")
                    before = blocks[k]
                loop.cancel_all()
        finally:
            GeckoConfig.PROTOCOL_TIMEOUT_IN_SECONDS = saved
    return scenario


def _cls_of(rec, label):
    cls, unknown = refmodel.label_class(rec)
    labels = rec["labels"]
    if label in labels:
        return cls[labels.index(label)]
    return unknown if label == "Unknown" else -1


def _time(sx, r):
    from sx.core import SymFmt, SymInt
    if isinstance(r, SymInt):
        return SymFmt([(r >> 8, "02"), ":", (r & 255, "02")])
    return f"{r >> 8:02}:{r & 255:02}"


def _temp(r, isc):
    return (r / 18.0) if isc else ((r + 320) / 10.0)


def two_items(async_):
    """Two items in one structure: each notifies on its own change only, once."""
    def scenario(sx):
        from geckolib.driver import GeckoStructure, GeckoAsyncStructure, GeckoByteStructAccessor, GeckoWordStructAccessor
        from sx.core import Ite
        n = 1 + sx.choice("patch_len", 3)
        old = sx.block("old", 1024)
        patch = sx.bytes_("patch", n)
        offset = sx.int_("offset", 0, 1024 - n)
        st = GeckoAsyncStructure(None, None) if async_ else GeckoStructure(None)
        st.set_status_block(old)
        p1 = sx.int_("pos1", 0, 1023)
        p2 = sx.int_("pos2", 0, 1022)
        a = GeckoByteStructAccessor(st, "A", p1, None)
        b = GeckoWordStructAccessor(st, "B", p2, None)
        st.accessors = {"A": a, "B": b}
        calls = []
        a.watch(lambda s, o, nv: calls.append("A"))
        if sx.choice("second_item_watched_only_after_a_first_update", 2):
            # an observer registered later (after updates have already gone by) is served like any other
            st.replace_status_block_segment(0, old[0:1])           # an update that changes nothing
            del calls[:]
        b.watch(lambda s, o, nv: calls.append("B"))
        st.replace_status_block_segment(offset, patch)
        new = st.status_block
        ca = refmodel.decoded_differs(refmodel.record_of(a), old, new, p1)
        cb = refmodel.decoded_differs(refmodel.record_of(b), old, new, p2)
        sx.observe("calls", list(calls))
        sx.check(Ite(ca, 1, 0) == calls.count("A"), "two.byte-item")
        sx.check(Ite(cb, 1, 0) == calls.count("B"), "two.word-item")
    return scenario


def observable(maxops):
    """Observable.watch/unwatch/unwatch_all: after any script the callees are exactly the
    distinct currently registered observers, each once, in registration order."""
    def scenario(sx):
        from geckolib.driver import GeckoByteStructAccessor, GeckoStructure
        st = GeckoStructure(None)
        old = sx.bytes_("old", 1)
        new = sx.bytes_("new", 1)
        st.set_status_block(old + b"\x00" * 1023)
        a = GeckoByteStructAccessor(st, "A", 0, None)
        st.accessors = {"A": a}
        calls = []

        class Client:
            def __init__(self, i):
                self.i = i

            def cb(self, *x):
                calls.append(self.i)

        clients = [Client(0), Client(1)]

        class _Obs:
            """a fresh bound-method object on every access, like `self._on_change` in the library"""

            def __getitem__(self, i):
                return clients[i].cb
        obs = _Obs()
        model = []
        nops = sx.choice("nops", maxops + 1)
        cur = 0
        for k in range(nops):
            op = sx.choice(f"op{k}", 6)
            if op < 2:
                a.watch(obs[op])
                if op not in model:
                    model.append(op)
            elif op < 4:
                o = op - 2
                if o in model:
                    a.unwatch(obs[o])
                    model.remove(o)
                else:
                    # removing an observer that is not registered: raising ValueError (as the audited code does) and
                    # doing nothing are both fine - the property speaks of who gets called
                    try:
                        a.unwatch(obs[o])
                    except ValueError:
                        pass
            elif op == 4:
                a.unwatch_all()
                model = []
            else:
                # an update in the middle of the script that really changes the value
                del calls[:]
                nb = (st.status_block[0] + 1) % 256          # a value different from the current one
                from sx.core import Vec
                st.replace_status_block_segment(0, bytes([nb]) if isinstance(nb, int) else Vec([nb]))
                sx.check(calls == model, "obs.callees-are-registered-set", lambda: f"mid-script {calls} vs {model}")
        del calls[:]
        old0 = st.status_block[0]
        st.replace_status_block_segment(0, new)
        differs = old0 != new[0]
        if bool(differs):
            sx.check(calls == model, "obs.callees-are-registered-set", lambda: f"{calls} vs {model}")
        else:
            sx.check(calls == [], "obs.silent-when-unchanged")
        sx.check(a.has_observers == (len(model) > 0), "obs.has-observers")
    return scenario


def reentrant_unwatch(sx):
    """an observer removes another observer (unwatch or unwatch_all) from inside its own callback: from that moment the
    removed one is not called - not later in the same notification, not at the next update"""
    from geckolib.driver import GeckoByteStructAccessor, GeckoStructure
    st = GeckoStructure(None)
    st.set_status_block(sx.bytes_("old", 1) + b"\x00" * 1023)
    a = GeckoByteStructAccessor(st, "A", 0, None)
    st.accessors = {"A": a}
    calls = []
    use_all = bool(sx.choice("remover_uses_unwatch_all", 2))

    class Victim:
        def cb(self, *x):
            calls.append("victim")
    victim = Victim()

    class Remover:
        def cb(self, *x):
            calls.append("remover")
            if use_all:
                a.unwatch_all()
            elif victim.cb in a._observers:
                a.unwatch(victim.cb)
    remover = Remover()
    first = sx.choice("remover_registered_first", 2)
    for o in ([remover, victim] if first else [victim, remover]):
        a.watch(o.cb)
    nb = (st.status_block[0] + 1) % 256
    from sx.core import Vec
    st.replace_status_block_segment(0, bytes([nb]) if isinstance(nb, int) else Vec([nb]))
    sx.check(calls == (["remover"] if first else ["victim", "remover"]), "obs.removed-inside-a-callback-is-not-called-afterwards",
             lambda: str(calls))
    del calls[:]
    nb2 = (st.status_block[0] + 1) % 256
    st.replace_status_block_segment(0, bytes([nb2]) if isinstance(nb2, int) else Vec([nb2]))
    sx.check("victim" not in calls, "obs.removed-observer-never-called-again", lambda: str(calls))


def units(tier):
    yield Unit("reentrant-unwatch", reentrant_unwatch)
    for sh, (k, name, sig) in sorted(shapes(tier).items(), key=lambda kv: kv[1][1]):
        for async_ in (False, True):
            if async_ and k > (4 if tier == "quick" else 16):
                continue        # (large label sets: the threaded structure class only; the two classes share the code path)
            yield Unit(f"notify.{'async' if async_ else 'sync'}.{name[4:]}", notify(sig, async_),
                       max_paths=60000, query_timeout_ms=120000, ratio_floats=True)
    sigs, reps = c02.signatures()
    temp = sorted((sg for sg in sigs if sg[0] == "GeckoTempStructAccessor"), key=str)[0]
    word = sorted((sg for sg in sigs if sg[0] == "GeckoWordStructAccessor"), key=str)[0]
    for async_ in (False, True):
        yield Unit(f"update-sequence.{'async' if async_ else 'sync'}.word", update_sequence(word, async_, 3, repeats=True),
                   max_paths=200000)
        for r1 in range(5):
            yield Unit(f"update-sequence.{'async' if async_ else 'sync'}.temp.{r1}", update_sequence(temp, async_, 3),
                       max_paths=200000, ratio_floats=True, presets={"range1": r1})
    yield Unit("refresh-path.sync", refresh_path(False), fresh_checks=True)
    yield Unit("refresh-path.async", refresh_path(True), fresh_checks=True)
    yield Unit("two-items.sync", two_items(False))
    yield Unit("two-items.async", two_items(True))
    yield Unit("observable", observable(4 if tier == "quick" else 5), validate=True)
