"""C17 - active/idle configuration switching is complete and wakes every sleeper.

Real set_config_mode from an arbitrary prior table, real
GeckoAsyncFacade._on_config_device_change on symbolic pump/blower states, and real
config_sleep on the virtual loop with a symbolic (real-valued) clock: sleeper start
offsets, delays and switch instants are free reals, every timer ordering is explored.
"""
from __future__ import annotations

from .common import Unit
from . import c11, facade_env as fe, refmodel

PROPERTY = "C17"
FUNCTIONS = ["config.set_config_mode", "config.config_sleep", "config.CONFIG_MEMBERS", "_GeckoActiveConfig/_GeckoIdleConfig",
             "GeckoAsyncFacade._on_config_device_change/all_config_change_devices", "GeckoPump.is_on", "GeckoSwitch.is_on",
             "asyncio.wait / asyncio.sleep / Future (real, on the virtual loop)"]


def bounds(tier):
    k, m = (2, 1) if tier == "quick" else (3, 2)
    return {"sleepers": f"<= {k} concurrent sleepers with free real start offsets and delays, <= {m} mode switches at free "
                        "real instants; all instants pairwise distinct",
            "switch": "every member of the live configuration symbolic before the switch, both modes",
            "devices": "state items of every pump and blower of one configuration per snapshot family symbolic"}


ASSUMPTIONS = [
    "clock readings are mathematical reals (no rounding at timer boundaries); distinct events happen at distinct instants",
    "the tables a switch must install are found by reflection over _GeckoActiveConfig/_GeckoIdleConfig, not through "
    "CONFIG_MEMBERS",
]
SITES = ["cfg.*", "dev.*", "slp.*"]


def _table(cls):
    return {k: v for k, v in vars(cls).items() if k.isupper()}


def switch_complete(sx):
    import geckolib.config as gc
    from sx.vloop import VLoop
    loop = VLoop()
    saved = {k: getattr(gc.GeckoConfig, k) for k in dir(gc.GeckoConfig) if k.isupper()}
    saved_cc = gc.ConfigChange
    try:
        act, idle = _table(gc._GeckoActiveConfig), _table(gc._GeckoIdleConfig)
        sx.check(set(act) == set(idle) and len(act) >= 10, "cfg.tables-have-the-same-settings")
        for i, k in enumerate(sorted(set(act) | set(idle))):
            setattr(gc.GeckoConfig, k, sx.int_(f"before_{k}", 0, 1000))
        gc.ConfigChange = loop.create_future()
        active = bool(sx.choice("active", 2))
        gc.set_config_mode(active)
        want = act if active else idle
        for k, v in sorted(want.items()):
            got = getattr(gc.GeckoConfig, k)
            sx.check(got == v, f"cfg.installed.{k}", lambda: f"{k}={got} expected {v}")
        sx.check(gc.ConfigChange.done(), "cfg.sleepers-signalled")
        gc.set_config_mode(active)          # a second switch with the signal already fired must not fail
        sx.check(True, "cfg.repeat-switch-ok")
    finally:
        for k, v in saved.items():
            setattr(gc.GeckoConfig, k, v)
        gc.ConfigChange = saved_cc


class _DoneFuture:
    """stands in for the shared ConfigChange future where no loop runs: already completed"""

    def done(self):
        return True

    def set_result(self, v):
        pass


def _effective_mode():
    """True/False when the complete active/idle table is installed, None for anything else"""
    import geckolib.config as gc
    for active, cls in ((True, gc._GeckoActiveConfig), (False, gc._GeckoIdleConfig)):
        if all(getattr(gc.GeckoConfig, m) == getattr(cls, m) for m in gc.CONFIG_MEMBERS):
            return active
    return None


def facade_selects(plat, c, l):
    def scenario(sx):
        import geckolib.automation.async_facade as af
        f, spa = c11.build(plat, c, l)
        devs = list(f.all_config_change_devices)
        if not devs:
            sx.check(True, "dev.none")
            return
        items = list(spa.struct.status_block)
        for d in devs:
            a = d._accessor if hasattr(d, "_accessor") else d._state_sensor.accessor
            rec = refmodel.record_of(a)
            v = sx.int_(f"state_{d.key}", 0, rec["mask"] if rec["bitpos"] is not None else (1 << (8 * rec["size"])) - 1)
            fe.set_item(items, a, v)
        spa.struct.set_status_block(fe.block_from_items(items))
        # the timing table is process-wide: whatever mode an earlier facade left behind, this one selects its own
        import geckolib.config as gc
        saved_cc = gc.ConfigChange
        gc.ConfigChange = _DoneFuture()
        try:
            gc.set_config_mode(bool(sx.choice("mode_left_behind_by_an_earlier_facade", 2)))
            f._on_config_device_change()
            selected = _effective_mode()
        finally:
            gc.set_config_mode(False)
            gc.ConfigChange = saved_cc
        anyon = False
        for d in devs:
            a = d._accessor if hasattr(d, "_accessor") else d._state_sensor.accessor
            rec = refmodel.record_of(a)
            r = refmodel.raw(rec, spa.struct.status_block)
            if rec["type"] == "Bool":
                on = bool(r == 1)
            else:
                on = bool(r != rec["labels"].index("OFF")) if "OFF" in rec["labels"] else True
            anyon = anyon or on
        sx.observe("selected", selected)
        sx.check(selected is not None, "dev.complete-table-installed")
        sx.check(selected == anyon, "dev.active-iff-some-pump-or-blower-on", lambda: f"{selected} vs {anyon}")
        want = [x.key for x in list(f.pumps) + list(f.blowers)]
        sx.check([x.key for x in devs] == want, "dev.devices-are-pumps-and-blowers")
    return scenario


def facade_follows_updates(plat, c, l):
    """the selection as the facade really makes it: devices change one at a time through status-block updates, the
    pump/blower change notifications reach the facade's handler, and after every single update the mode last
    selected is active iff some pump or blower is on in the block now in force"""
    def scenario(sx):
        import geckolib.automation.async_facade as af
        f, spa = c11.build(plat, c, l)
        devs = list(f.all_config_change_devices)[:3]
        if len(devs) < 2:
            sx.check(True, "dev.none")
            return
        import geckolib.config as gc
        saved_cc = gc.ConfigChange
        gc.ConfigChange = _DoneFuture()
        try:
            gc.set_config_mode(bool(sx.choice("mode_left_behind_by_an_earlier_facade", 2)))
            # everything off to begin with, every state read once (as the facade's periodic update does)
            items = list(spa.struct.status_block)
            accs = []
            for d in f.all_config_change_devices:
                a = d._accessor if hasattr(d, "_accessor") else d._state_sensor.accessor
                rec = refmodel.record_of(a)
                off = 0 if rec["type"] == "Bool" else rec["labels"].index("OFF")
                fe.set_item(items, a, off)
                accs.append((d, a, rec, off))
            spa.struct.set_status_block(bytes(items))
            _ = [d.is_on for d in f.all_config_change_devices]
            f._on_config_device_change()
            sx.check(_effective_mode() is False, "dev.idle-when-everything-is-off", lambda: str(_effective_mode()))
            state = {d.key: False for d, *_ in accs}
            for step in range(3):
                d, a, rec, off = accs[sx.choice(f"device{step}", len(devs))]
                turn_on = not state[d.key]
                on_val = 1 if rec["type"] == "Bool" else [i for i, s_ in enumerate(rec["labels"]) if s_ not in ("OFF", "")][0]
                cur = list(spa.struct.status_block)
                fe.set_item(cur, a, on_val if turn_on else off)
                spa.struct.replace_status_block_segment(a.pos, bytes(cur[a.pos:a.pos + a.length]))
                state[d.key] = turn_on
                sel = _effective_mode()
                sx.check(sel == any(state.values()), "dev.mode-follows-every-single-update",
                         lambda: f"step {step}: {d.key} -> {turn_on}, installed {sel}, on: {state}")
        finally:
            gc.set_config_mode(False)
            gc.ConfigChange = saved_cc
    return scenario


def sleepers(k, m):
    def scenario(sx):
        import asyncio
        import geckolib.config as gc
        from sx.vloop import VLoop
        from sx.core import And, Or, Implies, Not
        loop = VLoop(start=0)
        saved_cc = gc.ConfigChange
        gc.ConfigChange = None
        try:
            n = 1 + sx.choice("sleepers", k)
            ns = sx.choice("switches", m + 1)
            starts = [sx.real_(f"start{i}", 0, 10) for i in range(n)]
            delays = [sx.real_(f"delay{i}", 0, 10) for i in range(n)]
            switches = [sx.real_(f"switch{j}", 0, 25) for j in range(ns)]
            for d in delays:
                sx.assume(d > 0)
            # distinct instants (see assumptions)
            inst = [s for s in starts] + [s + d for s, d in zip(starts, delays)] + list(switches)
            for a in range(len(inst)):
                for b in range(a + 1, len(inst)):
                    sx.assume(inst[a] != inst[b])
            for s in starts + switches:
                sx.assume(s > 0)
            begun, woke = {}, {}

            async def sleeper(i):
                await asyncio.sleep(starts[i])
                begun[i] = loop.time()
                await gc.config_sleep(delays[i])
                woke[i] = loop.time()

            async def switcher(j):
                await asyncio.sleep(switches[j])
                gc.set_config_mode(j % 2 == 0)

            async def main():
                # some task has slept on the configuration before (the task manager's tidy task)
                ts = [asyncio.ensure_future(sleeper(i)) for i in range(n)]
                ts += [asyncio.ensure_future(switcher(j)) for j in range(ns)]
                await asyncio.gather(*ts)

            # set_config_mode asserts that somebody has slept before; the tidy task guarantees that in the library
            gc.ConfigChange = loop.create_future()
            loop.run_until_complete(main(), max_time=1000)
            for i in range(n):
                t0, d, w = begun[i], delays[i], woke[i]
                sx.observe(f"woke{i}", w)
                sx.check(t0 == starts[i], "slp.started-on-time")
                sx.check(w <= t0 + d, "slp.never-sleeps-longer-than-asked")
                inside = [And(s > t0, s < t0 + d) for s in switches]
                first = None
                # expected wake-up: the earliest switch inside (t0, t0+d), else t0+d
                exp = t0 + d
                for s, ins in zip(switches, inside):
                    take = And(ins, s < exp) if not isinstance(exp, (int, float)) or True else ins
                    exp = _ite(take, s, exp)
                sx.check(w == exp, "slp.wakes-at-switch-or-deadline", lambda: f"woke {w} expected {exp}")
            loop.cancel_all()
        finally:
            gc.ConfigChange = saved_cc
    return scenario


def looping_sleepers(n, ns):
    """sleepers that sleep again as soon as they wake (the library's polling loops), several switches: every one of
    the sleeps ends at the first switch that falls inside it, or at its deadline"""
    def scenario(sx):
        import asyncio
        import geckolib.config as gc
        from sx.vloop import VLoop
        from sx.core import And
        loop = VLoop(start=0)
        saved_cc = gc.ConfigChange
        gc.ConfigChange = None
        try:
            starts = [sx.real_(f"start{i}", 0, 1) for i in range(n)]
            delays = [[sx.real_(f"delay{i}_{r}", 0, 10) for r in range(2)] for i in range(n)]
            switches = [sx.real_(f"switch{j}", 0, 25) for j in range(ns)]
            for j in range(1, ns):
                sx.assume(switches[j - 1] < switches[j])
            for s in starts + switches + [d for ds in delays for d in ds]:
                sx.assume(s > 0)
            # distinct instants (see assumptions): every start, deadline and switch that can occur
            inst = list(switches)
            for i in range(n):
                first_end = starts[i] + delays[i][0]
                inst += [starts[i], first_end] + [t1 + delays[i][1] for t1 in [first_end] + list(switches)]
            for a in range(len(inst)):
                for b in range(a + 1, len(inst)):
                    sx.assume(inst[a] != inst[b])
            spans = []

            async def sleeper(i):
                await asyncio.sleep(starts[i])
                for r in range(2):
                    t0 = loop.time()
                    await gc.config_sleep(delays[i][r])
                    spans.append((i, r, t0, delays[i][r], loop.time()))

            async def switcher():
                for j in range(ns):
                    await asyncio.sleep(switches[j] - loop.time())
                    gc.set_config_mode(j % 2 == 0)

            async def main():
                await asyncio.gather(*[asyncio.ensure_future(sleeper(i)) for i in range(n)], asyncio.ensure_future(switcher()))
            gc.ConfigChange = loop.create_future()
            # distinct instants: no deadline or start coincides with a switch (see assumptions)
            loop.run_until_complete(main(), max_time=1000)
            for (i, r, t0, d, w) in spans:
                sx.check(w <= t0 + d, "slp.loop.never-sleeps-longer-than-asked")
                exp = t0 + d
                for sw in reversed(switches):
                    exp = _ite(And(sw > t0, sw < t0 + d), sw, exp)
                sx.check(w == exp, "slp.loop.wakes-at-switch-or-deadline", lambda: f"sleeper {i} sleep {r}: woke {w} expected {exp}")
            sx.check(len(spans) == 2 * n, "slp.loop.all-sleeps-ended")
            loop.cancel_all()
        finally:
            gc.ConfigChange = saved_cc
    return scenario


def zero_delay(sx):
    """the extreme of "never sleeps longer than it asked": a delay of exactly 0 (an int or a float), with and
    without other sleepers, no switch - the sleeper is back at once"""
    import asyncio
    import geckolib.config as gc
    from sx.vloop import VLoop
    loop = VLoop(start=0)
    saved_cc = gc.ConfigChange
    gc.ConfigChange = None
    try:
        zero = [0, 0.0][sx.choice("zero_kind", 2)]
        others = sx.choice("other_sleepers", 2)
        woke = {}

        async def sleeper(i, d):
            await gc.config_sleep(d)
            woke[i] = loop.time()

        async def main():
            ts = [asyncio.ensure_future(sleeper(0, zero))] + [asyncio.ensure_future(sleeper(1 + i, 5)) for i in range(others)]
            await asyncio.wait(ts, timeout=50)
        loop.run_until_complete(main(), max_time=1000)
        sx.check(0 in woke and woke[0] == 0, "slp.zero-delay-returns-at-once", lambda: str(woke))
        loop.cancel_all()
    finally:
        gc.ConfigChange = saved_cc


def _ite(c, a, b):
    from sx.realtime import SymReal, _r, mkreal
    from sx.core import bterm
    import z3
    if isinstance(c, bool):
        return a if c else b
    return mkreal(z3.If(bterm(c), _r(a), _r(b)))


def units(tier):
    from .c13 import configurations
    yield Unit("switch-complete", switch_complete)
    for (plat, c, l) in sorted(configurations()):
        yield Unit(f"facade-selects.{plat}-{c}-{l}", facade_selects(plat, c, l), max_paths=50000)
        yield Unit(f"facade-follows-updates.{plat}-{c}-{l}", facade_follows_updates(plat, c, l), validate=False)
    k, m = (2, 1) if tier == "quick" else (3, 2)
    yield Unit(f"sleepers.{k}x{m}", sleepers(k, m), max_paths=200000, max_depth=3000)
    yield Unit("zero-delay", zero_delay)
    yield Unit("looping-sleepers.2x2", looping_sleepers(2, 2), max_paths=200000, max_depth=3000)
    # (three looping sleepers, or three switches, did not finish within half an hour of one core: outside the claim)
