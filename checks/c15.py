"""C15 - discovery lists each spa once, honours the filter, and terminates on time.

Real GeckoAsyncLocator.discover (+ its hello consumer and broadcast loop, on the real
AsyncTasks task manager) on the virtual loop with a fake broadcast endpoint.
Symbolic: how many replies, when each arrives, which spa it comes from (duplicates
included), the spa name bytes (any latin-1 byte, '|' included), identifier and
address filters.
"""
from __future__ import annotations

from .common import Unit

PROPERTY = "C15"
FUNCTIONS = ["GeckoAsyncLocator.discover/_async_on_discovered/_broadcast_loop/age/has_had_enough_time/spas",
             "GeckoHelloProtocolHandler.broadcast/can_handle/handle/consume", "GeckoAsyncSpaDescriptor",
             "AsyncTasks.add_task/cancel_key_tasks", "GeckoAsyncUdpProtocol.queue_send/datagram_received",
             "GeckoLocator._on_discovered (threaded, one step)"]


def bounds(tier):
    q = tier == "quick"
    return {"timing": "DISCOVERY_INITIAL_TIMEOUT 0.25 s, DISCOVERY_TIMEOUT 0.55 s of virtual time (<= 6 polls): values of the "
                      "mutable GeckoConfig object",
            "replies": f"<= {2 if q else 3} replies, each arriving before poll 0 / 2 / 4 or never, from one of two spas "
                       "(so duplicates and both orders occur), names: empty, 2 symbolic bytes, a latin-1 name whose bytes are "
                       "valid UTF-8, a name with two separators; the locator runs on a live AsyncTasks manager whose tidy "
                       "pass falls inside the run",
            "bursts": "17 / 24 / 40 spas all answering every broadcast at once (concrete), initial wait n polls + 0.5 s",
            "handlers": "event handlers that return at once; in the slow-handler units (<= 2 replies) handlers that suspend for "
                        "0.12 s or 0.3 s - listing and clean-up clauses only",
            "filters": "none / identifier / address / identifier of a spa that never answers"}


ASSUMPTIONS = [
    "replies are well-formed discovery replies (<HELLO>id|name</HELLO>); the locator's own broadcast is not echoed back",
    "tasks wake at their virtual deadlines, same-instant wake-ups in FIFO order",
    "threaded GeckoLocator: only its de-duplication step is decided (real threads are outside the technique)",
]
SITES = ["dsc.*", "thr.*"]
INITIAL, TIMEOUT, POLL = 0.25, 0.55, 0.1
# (the first identifier holds a non-ASCII latin-1 byte)
SPAS = [(b"SPA\xe91:02:03:04:05:06", ("10.0.0.1", 10022)), (b"SPA0a:0b:0c:0d:0e:0f", ("10.0.0.2", 10022))]
SLOTS = [0, 2, 4, None]


def discover(maxreplies, slow=False):
    def scenario(sx):
        import asyncio
        from sx.vloop import VLoop, patched_time
        from geckolib.async_locator import GeckoAsyncLocator
        from geckolib.async_tasks import AsyncTasks
        from geckolib.config import GeckoConfig
        saved = (GeckoConfig.DISCOVERY_INITIAL_TIMEOUT_IN_SECONDS, GeckoConfig.DISCOVERY_TIMEOUT_IN_SECONDS)
        saved_tidy = GeckoConfig.TASK_TIDY_FREQUENCY_IN_SECONDS
        import geckolib.config as gc
        saved_cc = gc.ConfigChange
        gc.ConfigChange = None
        GeckoConfig.DISCOVERY_INITIAL_TIMEOUT_IN_SECONDS, GeckoConfig.DISCOVERY_TIMEOUT_IN_SECONDS = INITIAL, TIMEOUT
        loop = VLoop()
        try:
            with patched_time(loop):
                mode = sx.choice("filter", 4)
                kw = {}
                if mode == 1:
                    kw["spa_identifier"] = SPAS[0][0].decode("latin1")
                elif mode == 2:
                    kw["spa_address"] = SPAS[0][1][0]
                elif mode == 3:
                    kw["spa_identifier"] = "SPAff:ff:ff:ff:ff:ff"
                n = sx.choice("replies", maxreplies + 1)
                plan = []
                for i in range(n):
                    who = sx.choice(f"from{i}", 2)
                    slot = SLOTS[sx.choice(f"slot{i}", len(SLOTS))]
                    nk = sx.choice(f"namekind{i}", 4)
                    if nk < 2:
                        name = sx.bytes_(f"name{i}", nk * 2)      # empty, or two arbitrary bytes ('|' and >= 0x80 included)
                    else:
                        # latin-1 names whose bytes happen to be valid UTF-8 / contain the separator twice
                        name = [b"Spa 38\xc2\xb0C", b"a|b|c"][nk - 2]
                    plan.append((who, slot, name))
                tm = AsyncTasks()
                GeckoConfig.TASK_TIDY_FREQUENCY_IN_SECONDS = 0.15      # a tidy pass falls inside the run
                events = []

                # slow variant: the application's event handler really suspends (0.12 or 0.3 s, longer than a poll),
                # so that the end of the run can fall while a helper task is inside it
                delay = [0.12, 0.3][sx.choice("handler_delay", 2)] if slow else 0.0

                async def ev(e, **k):
                    events.append((e, k))
                    if delay:
                        await asyncio.sleep(delay)
                loc = GeckoAsyncLocator(tm, ev, **kw)
                arrivals = []

                def on_endpoint(tr, proto, kwargs):
                    for who, slot, name in plan:
                        if slot is None:
                            continue
                        t = POLL * slot + 0.05 if slot else 0.0
                        ident, addr = SPAS[who]
                        data = b"<HELLO>" + ident + b"|" + name + b"</HELLO>"
                        arrivals.append((t, who, name))
                        if t == 0.0:
                            proto.datagram_received(data, addr)
                        else:
                            loop.call_at(loop.time() + t, proto.datagram_received, data, addr)
                loop.on_endpoint = on_endpoint
                ended = []

                async def session():
                    # the locator runs on a live task manager, as under GeckoAsyncSpaMan
                    async with tm:
                        await asyncio.sleep(0.05)      # the manager has been running for a while
                        t0 = loop.time()
                        await loc.discover()
                        ended.append(loop.time() - t0)
                        await asyncio.sleep(0.5)
                        left = [t.get_name() for t in tm._tasks if not t.done() and t.get_name().startswith("LOC:")]
                        ended.append(left)
                loop.run_until_complete(session(), max_time=50.0)
                t_end = ended[0]
                sx.observe("t_end", round(t_end, 3))
                spas = loc.spas
                # ---- listing
                want = None
                if mode in (1, 3):
                    want = SPAS[0][0] if mode == 1 else b"SPAff:ff:ff:ff:ff:ff"
                exp = []
                for t, who, name in sorted(arrivals, key=lambda a: a[0]):
                    ident = SPAS[who][0]
                    if want is not None and ident != want:
                        continue
                    if t > t_end:
                        continue
                    if ident not in [e[0] for e in exp]:
                        exp.append((ident, name, SPAS[who][1]))
                # replies that arrived too late to be processed before the run ended are not required
                listed = [(d.identifier, d.name, d.destination) for d in spas]
                sx.observe("listed", [(a, c) for a, b, c in listed])
                ids = [a for a, b, c in listed]
                sx.check(len(set(ids)) == len(ids), "dsc.each-spa-listed-once", lambda: str(ids))
                if want is not None:
                    sx.check(all(i == want for i in ids), "dsc.only-the-requested-identifier", lambda: str(ids))
                early = [] if slow else [e for e in exp if any(a[0] + (len(arrivals) + 1) * POLL <= t_end for a in arrivals if SPAS[a[1]][0] == e[0])]
                for ident, name, addr in early:
                    sx.check(ident in ids, "dsc.answering-spa-is-listed", lambda: f"{ident} missing from {ids}")
                for (ident, nm, dest) in listed:
                    srcs = [e for e in exp if e[0] == ident]
                    sx.check(bool(srcs), "dsc.listed-spa-did-answer")
                    if srcs:
                        first = srcs[0]
                        sx.check(dest == first[2], "dsc.address-intact")
                        ref = first[1].decode("latin1") if len(first[1]) else ""
                        sx.check(nm == ref, "dsc.name-intact", lambda: f"{nm!r} vs {ref!r}")
                # ---- timing
                eps = 1e-9
                specific = mode in (1, 2, 3)
                if not slow:
                    sx.check(t_end <= TIMEOUT + POLL + eps, "dsc.returns-within-the-timeout", lambda: str(t_end))
                if slow:
                    pass          # (the timing clauses are decided with handlers that return at once)
                elif specific:
                    hits = [t for (t, who, name) in arrivals
                            if (mode == 2 or SPAS[who][0] == want)]
                    if mode == 2:
                        hits = [t for (t, who, name) in arrivals]   # any reply: the address was given
                    if hits:
                        # the hello consumer takes one datagram per polling interval: replies queued ahead cost one each
                        ahead = len([1 for (t, _, _) in arrivals if t <= min(hits)])
                        sx.check(t_end <= min(hits) + (ahead + 1) * POLL + eps, "dsc.returns-as-soon-as-the-requested-spa-answered",
                                 lambda: f"{t_end} vs first hit {min(hits)}")
                    else:
                        sx.check(t_end >= TIMEOUT - eps, "dsc.waits-the-full-timeout-when-the-requested-spa-is-silent",
                                 lambda: f"returned at {t_end} with {ids}")
                else:
                    if arrivals:
                        a0 = min(t for t, _, _ in arrivals)
                        sx.check(t_end <= max(a0, INITIAL) + 2 * POLL + eps, "dsc.returns-after-initial-wait-once-any-spa-answered",
                                 lambda: f"{t_end}")
                        sx.check(t_end >= min(INITIAL, TIMEOUT) - eps, "dsc.not-before-the-initial-wait", lambda: f"{t_end}")
                    else:
                        sx.check(t_end >= TIMEOUT - eps, "dsc.waits-the-full-timeout-when-nobody-answers")
                # ---- clean-up
                tr = loop.endpoints[0][0]
                sx.check(tr.closed == 1, "dsc.endpoint-closed-once", lambda: str(tr.closed))
                alive = ended[1]
                alive2 = [t.get_name() for t in loop.tasks if not t.done() and t.get_name().startswith("LOC:")]
                sx.check(not alive and not alive2, "dsc.no-helper-task-left", lambda: str(alive + alive2))
                sent_after = [s for s in tr.sent if s[2] > t_end + 0.05 + eps]
                sx.check(not sent_after, "dsc.no-broadcast-after-return")
                sx.check(len(tr.sent) >= 1 and tr.sent[0][0] == b"<HELLO>1</HELLO>", "dsc.broadcast-sent")
            loop.cancel_all()
        finally:
            GeckoConfig.DISCOVERY_INITIAL_TIMEOUT_IN_SECONDS, GeckoConfig.DISCOVERY_TIMEOUT_IN_SECONDS = saved
            GeckoConfig.TASK_TIDY_FREQUENCY_IN_SECONDS = saved_tidy
            gc.ConfigChange = saved_cc
    return scenario


def burst(sx):
    """many spas answer the same broadcast at once (more than any small backlog): every one of them is listed once"""
    import asyncio
    from sx.vloop import VLoop, patched_time
    from geckolib.async_locator import GeckoAsyncLocator
    from geckolib.async_tasks import AsyncTasks
    from geckolib.config import GeckoConfig
    import geckolib.config as gc
    saved = (GeckoConfig.DISCOVERY_INITIAL_TIMEOUT_IN_SECONDS, GeckoConfig.DISCOVERY_TIMEOUT_IN_SECONDS)
    saved_cc = gc.ConfigChange
    gc.ConfigChange = None
    n = [17, 24, 40][sx.choice("spas", 3)]
    # (the hello consumer takes one datagram per poll: the initial wait leaves room for all of them)
    GeckoConfig.DISCOVERY_INITIAL_TIMEOUT_IN_SECONDS, GeckoConfig.DISCOVERY_TIMEOUT_IN_SECONDS = n * POLL + 0.5, n * POLL + 1.5
    loop = VLoop()
    try:
        with patched_time(loop):
            tm = AsyncTasks()

            async def ev(e, **k):
                pass
            loc = GeckoAsyncLocator(tm, ev)
            rounds = [0]

            def on_endpoint(tr, proto, kwargs):
                def on_send(tr_, data, addr):
                    # every spa answers every broadcast, always in the same order
                    rounds[0] += 1
                    for i in range(n):
                        proto.datagram_received(b"<HELLO>SPA%02d:00:00:00:00:00|spa %d</HELLO>" % (i, i), ("10.0.1.%d" % i, 10022))
                tr.on_send = on_send
            loop.on_endpoint = on_endpoint

            async def session():
                async with tm:
                    await loc.discover()
            loop.run_until_complete(session(), max_time=200.0)
            ids = [d.identifier for d in loc.spas]
            sx.observe("listed", len(ids))
            sx.check(len(set(ids)) == len(ids), "dsc.each-spa-listed-once")
            sx.check(len(ids) == n, "dsc.burst-every-answering-spa-is-listed", lambda: f"{len(ids)} of {n} after {rounds[0]} broadcasts")
        loop.cancel_all()
    finally:
        GeckoConfig.DISCOVERY_INITIAL_TIMEOUT_IN_SECONDS, GeckoConfig.DISCOVERY_TIMEOUT_IN_SECONDS = saved
        gc.ConfigChange = saved_cc


def second_locator(sx):
    """a second discovery in the same process (a fresh locator, as the spa manager builds one per run): it lists the
    answering spas again and returns on time"""
    import asyncio
    from sx.vloop import VLoop, patched_time
    from geckolib.async_locator import GeckoAsyncLocator
    from geckolib.async_tasks import AsyncTasks
    from geckolib.config import GeckoConfig
    import geckolib.config as gc
    saved = (GeckoConfig.DISCOVERY_INITIAL_TIMEOUT_IN_SECONDS, GeckoConfig.DISCOVERY_TIMEOUT_IN_SECONDS)
    saved_cc = gc.ConfigChange
    gc.ConfigChange = None
    GeckoConfig.DISCOVERY_INITIAL_TIMEOUT_IN_SECONDS, GeckoConfig.DISCOVERY_TIMEOUT_IN_SECONDS = INITIAL, TIMEOUT
    loop = VLoop()
    filtered = bool(sx.choice("identifier_filter_on_the_second_run", 2))
    try:
        with patched_time(loop):
            tm = AsyncTasks()

            async def ev(e, **k):
                pass

            def on_endpoint(tr, proto, kwargs):
                def on_send(tr_, data, addr):
                    for ident, ad in SPAS:
                        proto.datagram_received(b"<HELLO>" + ident + b"|spa</HELLO>", ad)
                tr.on_send = on_send
            loop.on_endpoint = on_endpoint
            out = []

            async def session():
                async with tm:
                    for run in range(2):
                        kw = {"spa_identifier": SPAS[1][0].decode("latin1")} if (run == 1 and filtered) else {}
                        loc = GeckoAsyncLocator(tm, ev, **kw)
                        t0 = loop.time()
                        await loc.discover()
                        out.append(([d.identifier for d in loc.spas], loop.time() - t0))
            loop.run_until_complete(session(), max_time=100.0)
            for run, (ids, took) in enumerate(out):
                want = [SPAS[1][0]] if (run == 1 and filtered) else [SPAS[0][0], SPAS[1][0]]
                sx.check(sorted(ids) == sorted(want), "dsc.every-run-lists-the-answering-spas", lambda: f"run {run}: {ids}")
                sx.check(took <= INITIAL + 3 * POLL + 1e-9, "dsc.every-run-returns-on-time", lambda: f"run {run}: {took}")
        loop.cancel_all()
    finally:
        GeckoConfig.DISCOVERY_INITIAL_TIMEOUT_IN_SECONDS, GeckoConfig.DISCOVERY_TIMEOUT_IN_SECONDS = saved
        gc.ConfigChange = saved_cc


def threaded_dedup(sx):
    """GeckoLocator._on_discovered: one step from an arbitrary list of already known spas"""
    from geckolib.locator import GeckoLocator
    from geckolib.driver import GeckoHelloProtocolHandler
    # the constructor opens no socket, starts no thread; the requested identifier may be given as text or as bytes
    want = sx.choice("spa_to_find", 4)
    kw = {}
    if want:
        ident = [SPAS[0][0], SPAS[1][0], b"SPAff:ff:ff:ff:ff:ff"][want - 1]
        kw["spa_to_find"] = ident.decode("latin1") if sx.choice("as_text", 2) else ident
    loc = GeckoLocator("02ac6d28-42d0-41e3-ad22-274d0aa491da", **kw)
    known = sx.choice("known", 3)
    h = GeckoHelloProtocolHandler(b"")
    for i in range(known):
        h.handle(b"<HELLO>" + SPAS[i][0] + b"|n</HELLO>", SPAS[i][1])
        loc._on_discovered(h, SPAS[i][1])
    who = sx.choice("who", 2)
    name = sx.bytes_("name", 2)
    h.handle(b"<HELLO>" + SPAS[who][0] + b"|" + name + b"</HELLO>", SPAS[who][1])
    before = len(loc.spas)
    loc._on_discovered(h, SPAS[who][1])
    ids = [s.identifier for s in loc.spas]
    sx.check(len(set(ids)) == len(ids), "thr.each-spa-listed-once", lambda: str(ids))
    sx.check(len(loc.spas) == before + (0 if who < known else 1), "thr.new-spa-added-once")
    # "returns as soon as a specifically requested spa has answered": the found flag says exactly that
    if want:
        answered = [SPAS[i][0] for i in range(known)] + [SPAS[who][0]]
        sx.check(loc._has_found_spa == (ident in answered), "thr.found-iff-the-requested-spa-answered",
                 lambda: f"found={loc._has_found_spa} requested={ident} answered={answered}")
    else:
        sx.check(not loc._has_found_spa, "thr.no-early-return-without-a-request")


def units(tier):
    q = tier == "quick"
    n = 2 if q else 3
    for f in range(4):
        yield Unit(f"discover.filter{f}", discover(n), presets={"filter": f}, max_paths=200000)
    for f in range(4):
        yield Unit(f"discover.slow-handler.filter{f}", discover(2, slow=True), presets={"filter": f}, max_paths=200000)
    yield Unit("burst", burst, validate=False)
    yield Unit("second-locator", second_locator, validate=False)
    yield Unit("threaded-dedup", threaded_dedup)
