"""C01 - status-block transfer installs the spa's bytes or nothing, under any faults.

Real GeckoAsyncStructure.get (on the virtual loop) and real
GeckoStructure.retry_request/_on_status_block_received against the segment chain
produced by the real GeckoSimulator for the very request the client sent.
Symbolic: spa block, client block, start, length, and per attempt an arbitrary
sequence of delivered datagrams, each any segment of the chain.
"""
from __future__ import annotations

from .common import Unit, SRC_ID, CLI_ID, DEST, content_offset

PROPERTY = "C01"
FUNCTIONS = [
    "GeckoAsyncStructure.get", "GeckoUdpProtocolHandler.wait_for_response/has_timedout/_reset_timeout",
    "GeckoAsyncUdpProtocol.queue_send/datagram_received/get_and_increment_sequence_counter", "AsyncPeekableQueue",
    "GeckoStatusBlockProtocolHandler.request/response/can_handle/handle",
    "GeckoAsyncStructure/GeckoStructure.replace_status_block_segment",
    "GeckoStructure.retry_request/_on_status_block_received", "GeckoUdpProtocolHandler.retry/loop/handled",
    "GeckoSimulator._on_status_block (+ its packet and status handlers via GeckoUdpSocket.dispatch_recevied_data)",
    "GeckoPacketProtocolHandler.handle/send_bytes",
]


def bounds(tier):
    q = tier == "quick"
    return {"faulty transfers": f"length <= {78 if q else 117} ({2 if q else 3} segments), <= {2 if q else 3} delivered "
                                f"datagrams per attempt (each any segment of the chain, or none), retry count <= 2",
            "targeted 3-segment faults (quick)": "length 79..117, first attempt delivers (0,2), (1,2) or (2), "
                                                 "then any <=3 deliveries in the retry",
            "fault-free twin": f"all (start,length) with length <= {200 if q else 312} (up to {6 if q else 8} segments), chain "
                               "delivered in order; longer transfers are outside the bound (the full 1024-byte transfer is "
                               "exercised concretely by C20's handshake and C19's shipped-file units)",
            "timing": "PROTOCOL_TIMEOUT scaled to 0.25 s of virtual time (3 polls per attempt)"}


ASSUMPTIONS = [
    "the spa block does not change during one transfer; delivered datagrams are segments of this transfer's chains "
    "(a stale segment of an earlier attempt is byte-identical to one of the current chain)",
    "datagrams reach the client's queue already unwrapped from <PACKT> framing (the packet consumer is covered by C07/C04)",
    "asyncio interleaves only at suspending awaits; one client task",
]
SITES = ["xfer.*", "ff.*", "thr.*", "thr2.*", "thr2s*"]
PARMS = (DEST[0], DEST[1], SRC_ID, CLI_ID)


def _mk_sim(block):
    from geckolib.utils.simulator import GeckoSimulator
    from geckolib.utils.shared_command import GeckoCmd
    GeckoCmd._init_logging = lambda self: None      # side effect on the root logger: stubbed
    sim = GeckoSimulator()
    sim.structure.set_status_block(block)
    return sim


def _serve(sim, wire):
    """Feed one client datagram to the real simulator; return the inner contents it answers with."""
    del sim._socket._send_handlers[:]
    sim._socket.dispatch_recevied_data(wire, DEST)
    out = [h._content for (h, dest) in sim._socket._send_handlers]
    del sim._socket._send_handlers[:]
    return out


def _oracle(sx, ok, S, C, Cn, start, length, tag):
    if ok:
        sx.check(len(Cn) == 1024, f"{tag}.length-kept")
        sx.check_bytes_equal(Cn, S, f"{tag}.requested-bytes-are-the-spas", start, start + length)
        # every byte is either untouched or the spa's (i: arbitrary index = universally quantified)
        i = sx.int_(f"any_index_{tag}", 0, 1023)
        b = Cn[i]
        sx.check((b == C[i]) | (b == S[i]), f"{tag}.no-foreign-byte")
    else:
        sx.check(Cn is C, f"{tag}.failed-transfer-leaves-block-untouched")


def async_transfer(maxlen, m, R, fault_free):
    def scenario(sx):
        import asyncio
        from sx.vloop import VLoop, patched_time, FakeDatagramTransport
        from geckolib.config import GeckoConfig
        from geckolib.driver import GeckoAsyncStructure, GeckoAsyncUdpProtocol, GeckoStatusBlockProtocolHandler
        saved = (GeckoConfig.PROTOCOL_TIMEOUT_IN_SECONDS, GeckoConfig.PROTOCOL_RETRY_COUNT)
        GeckoConfig.PROTOCOL_TIMEOUT_IN_SECONDS = 0.25
        loop = VLoop()
        try:
            with patched_time(loop):
                S = sx.block("spa_block", 1024)
                C = sx.block("client_block", 1024)
                length = sx.int_("length", 1, maxlen)
                start = sx.int_("start", 0, 1023)
                sx.assume(start + length <= 1024)
                sim = _mk_sim(S)
                st = GeckoAsyncStructure(None, None)
                st.set_status_block(C)
                proto = GeckoAsyncUdpProtocol(None, DEST)
                proto._sequence_counter_protocol = sx.int_("protocol_counter", 0, 191)
                attempts = []

                def on_send(tr, data, addr):
                    chain = _serve(sim, data)
                    a = len(attempts)
                    attempts.append((data, chain))
                    k = len(chain)
                    if fault_free:
                        order = list(range(k))
                    else:
                        order = []
                        for j in range(m):
                            c = sx.choice(f"attempt{a}_delivery{j}", k + 1)
                            sx.assume(c <= k)        # (a preset may name a segment this chain does not have)
                            if c == k:
                                break
                            order.append(c)
                    for c in order:
                        proto.datagram_received(chain[c], PARMS)

                proto.connection_made(FakeDatagramTransport(loop, proto, on_send))
                made = []

                def create():
                    r = GeckoStatusBlockProtocolHandler.request(
                        proto.get_and_increment_sequence_counter(False), start, length, parms=PARMS)
                    made.append(r)
                    return r

                ok = loop.run_until_complete(st.get(proto, create, R), max_time=60.0)
                Cn = st.status_block
                tag = "ff" if fault_free else "xfer"
                sx.observe("ok", ok)
                sx.observe("attempts", len(attempts))
                if fault_free:
                    sx.check(ok is True, "ff.succeeds-on-a-fault-free-network",
                             lambda: f"start={start} length={length} segments={[len(c) for _, c in attempts]}")
                    sx.check(len(attempts) == 1, "ff.one-request")
                sx.check(1 <= len(attempts) <= R, f"{tag}.at-most-retry-count-requests", lambda: str(len(attempts)))
                sx.check(len(made) == len(attempts), f"{tag}.each-attempt-freshly-built")
                off = content_offset(CLI_ID, SRC_ID)
                seqs = [d[off + 5] for d, _ in attempts]
                for a, b in zip(seqs, seqs[1:]):
                    sx.check(a != b, f"{tag}.fresh-sequence-number-per-attempt")
                _oracle(sx, bool(ok), S, C, Cn, start, length, tag)
                loop.cancel_all()
        finally:
            GeckoConfig.PROTOCOL_TIMEOUT_IN_SECONDS, GeckoConfig.PROTOCOL_RETRY_COUNT = saved
    return scenario


class _Sock:
    """Socket double for the threaded structure: records sends, hands out sequence numbers."""

    def __init__(self):
        self.sends = []
        self.handlers = []

    def add_receive_handler(self, h):
        self.handlers.append(h)

    def queue_send(self, h, dest):
        self.sends.append((h, dest))


def threaded_transfer(maxlen, m, R, fault_free):
    def scenario(sx):
        from sx.vloop import VLoop, patched_time
        from geckolib.driver import GeckoStructure, GeckoStatusBlockProtocolHandler
        loop = VLoop()
        with patched_time(loop):
            S = sx.block("spa_block", 1024)
            C = sx.block("client_block", 1024)
            length = sx.int_("length", 1, maxlen)
            start = sx.int_("start", 0, 1023)
            sx.assume(start + length <= 1024)
            sim = _mk_sim(S)
            st = GeckoStructure(None)
            st.set_status_block(C)
            sock = _Sock()
            seq = sx.int_("seq", 1, 191)
            req = GeckoStatusBlockProtocolHandler.request(seq, start, length, parms=PARMS)
            req._timeout_in_seconds = 0.25
            req._retry_count = R - 1          # R transmissions in total
            st.retry_request(sock, req, PARMS)
            sent = 0
            failed = False
            while not req.should_remove_handler:
                if sent >= len(sock.sends):
                    # nothing in flight: the engine loop lets the handler time out
                    loop._time += 0.3
                    before = len(sock.sends)
                    req.loop(sock)
                    if len(sock.sends) == before:
                        failed = True
                        break
                    continue
                h, dest = sock.sends[sent]
                sent += 1
                h.last_destination = dest
                chain = _serve(sim, h.send_bytes)
                k = len(chain)
                if fault_free:
                    order = list(range(k))
                else:
                    order = []
                    for j in range(m):
                        c = sx.choice(f"attempt{sent - 1}_delivery{j}", k + 1)
                        sx.assume(c <= k)
                        if c == k:
                            break
                        order.append(c)
                for c in order:
                    if req.should_remove_handler:
                        break
                    if req.can_handle(chain[c], PARMS):
                        req.handle(chain[c], PARMS)
                        try:
                            req.handled(PARMS)
                        except RuntimeError:
                            failed = True      # "Too many retries": the engine logs it and goes on
                            break
                if failed:
                    break
            ok = req.should_remove_handler and st.had_at_least_one_block
            tag = "thr.ff" if fault_free else "thr"
            sx.observe("ok", ok)
            sx.observe("sends", len(sock.sends))
            if fault_free:
                sx.check(ok, "thr.ff.succeeds-on-a-fault-free-network")
            sx.check(len(sock.sends) <= R, f"{tag}.at-most-retry-count-requests", lambda: str(len(sock.sends)))
            _oracle(sx, bool(ok), S, C, st.status_block, start, length, tag)
    return scenario


def threaded_two_transfers(sx):
    """the same threaded structure runs two transfers: the first dies by time-out after receiving only a prefix
    of its chain, the second is fault-free - nothing of the first may leak into the second"""
    from sx.vloop import VLoop, patched_time
    from geckolib.driver import GeckoStructure, GeckoStatusBlockProtocolHandler
    loop = VLoop()
    with patched_time(loop):
        S = sx.block("spa_block", 1024)
        C = sx.block("client_block", 1024)
        sim = _mk_sim(S)
        st = GeckoStructure(None)
        st.set_status_block(C)
        sock = _Sock()
        prefix = 1 + sx.choice("segments_received_before_silence", 2)
        # transfer A: 3+ segments, only a prefix arrives, every retry is lost too
        startA = sx.int_("start_a", 0, 800)
        reqA = GeckoStatusBlockProtocolHandler.request(1, startA, 100, parms=PARMS)
        reqA._timeout_in_seconds, reqA._retry_count = 0.25, 1
        st.retry_request(sock, reqA, PARMS)
        h, dest = sock.sends[0]
        h.last_destination = dest
        chain = _serve(sim, h.send_bytes)
        for seg in chain[:prefix]:
            reqA.handle(seg, PARMS)
            reqA.handled(PARMS)
        for _ in range(4):
            loop._time += 0.3
            reqA.loop(sock)                 # time-outs: one retry (lost), then the handler gives up
        sx.check(reqA.should_remove_handler, "thr.failed-transfer-gives-up")
        sx.check(st.status_block is C, "thr.failed-transfer-leaves-block-untouched")
        # transfer B: another range, fault-free
        startB = sx.int_("start_b", 0, 900)
        lengthB = sx.int_("length_b", 79, 117)
        reqB = GeckoStatusBlockProtocolHandler.request(2, startB, lengthB, parms=PARMS)
        reqB._timeout_in_seconds, reqB._retry_count = 0.25, 1
        n0 = len(sock.sends)
        st.retry_request(sock, reqB, PARMS)
        h, dest = sock.sends[n0]
        h.last_destination = dest
        for seg in _serve(sim, h.send_bytes):
            if reqB.should_remove_handler:
                break
            reqB.handle(seg, PARMS)
            reqB.handled(PARMS)
        ok = reqB.should_remove_handler and st.had_at_least_one_block
        sx.check(ok, "thr.ff.succeeds-on-a-fault-free-network")
        _oracle(sx, bool(ok), S, C, st.status_block, startB, lengthB, "thr2")


def threaded_two_structures(sx):
    """two threaded structures (two spas in one process) transfer at the same time, their segment chains arriving
    interleaved: each ends up with its own spa's bytes"""
    from sx.vloop import VLoop, patched_time
    from geckolib.driver import GeckoStructure, GeckoStatusBlockProtocolHandler
    loop = VLoop()
    with patched_time(loop):
        S = [sx.block("spa_block_a", 1024), sx.block("spa_block_b", 1024)]
        C = [sx.block("client_block_a", 1024), sx.block("client_block_b", 1024)]
        sims = [_mk_sim(S[0]), _mk_sim(S[1])]
        sts = [GeckoStructure(None), GeckoStructure(None)]
        start = [sx.int_("start_a", 0, 900), sx.int_("start_b", 0, 900)]
        length = [100, 90]
        reqs, chains = [], []
        for k in range(2):
            sts[k].set_status_block(C[k])
            sock = _Sock()
            r = GeckoStatusBlockProtocolHandler.request(1 + k, start[k], length[k], parms=PARMS)
            r._timeout_in_seconds, r._retry_count = 0.25, 1
            sts[k].retry_request(sock, r, PARMS)
            h, dest = sock.sends[0]
            h.last_destination = dest
            reqs.append(r)
            chains.append(_serve(sims[k], h.send_bytes))
        # strict alternation, or all of one spa's segments between two of the other's
        order = [[(0, 0), (1, 0), (0, 1), (1, 1), (0, 2), (1, 2)], [(0, 0), (1, 0), (1, 1), (1, 2), (0, 1), (0, 2)],
                 [(1, 0), (0, 0), (0, 1), (0, 2), (1, 1), (1, 2)]][sx.choice("interleaving", 3)]
        for k, i in order:
            if not reqs[k].should_remove_handler:
                reqs[k].handle(chains[k][i], PARMS)
                reqs[k].handled(PARMS)
        for k in range(2):
            ok = reqs[k].should_remove_handler and sts[k].had_at_least_one_block
            sx.check(ok, "thr.ff.succeeds-on-a-fault-free-network")
            _oracle(sx, bool(ok), S[k], C[k], sts[k].status_block, start[k], length[k], f"thr2s{k}")


def units(tier):
    q = tier == "quick"
    yield Unit("threaded.two-transfers", threaded_two_transfers, fresh_checks=True, max_depth=2000)
    yield Unit("threaded.two-structures", threaded_two_structures, fresh_checks=True, max_depth=2000)
    # (fault-free twin: beyond 8 segments single queries ran into the solver's time limit - outside the claim)
    ffmax = 200 if q else 312
    # fault-free twin, split by segment count through the length range
    step = 39
    lo = 1
    while lo <= ffmax:
        hi = min(lo + step - 1, ffmax)
        yield Unit(f"fault-free.async.len{lo}-{hi}", _ranged(async_transfer, lo, hi, True), fresh_checks=True,
                   loop_bound=40, max_depth=2000)
        yield Unit(f"fault-free.threaded.len{lo}-{hi}", _ranged(threaded_transfer, lo, hi, True), fresh_checks=True,
                   loop_bound=40, max_depth=2000)
        lo = hi + 1
    if q:
        yield from three_segment_units(tier)
    maxlen, m, R = (78, 2, 2) if q else (117, 3, 2)
    nseg = (maxlen + 38) // 39
    # the fault tree is split across processes by the first two deliveries of the first attempt
    for first in range(nseg + 1):
        for second in range(nseg + 1):
            if first == nseg and second != nseg:
                continue        # "nothing delivered" ends the attempt's deliveries
            pre = {"attempt0_delivery0": first, "attempt0_delivery1": second}
            yield Unit(f"faults.async.{first}{second}", async_transfer(maxlen, m, R, False), fresh_checks=True,
                       presets=pre, max_paths=100000, max_depth=2000)
            yield Unit(f"faults.threaded.{first}{second}", threaded_transfer(maxlen, m, R, False), fresh_checks=True,
                       presets=pre, max_paths=100000, max_depth=2000)


def three_segment_units(tier):
    """3-segment transfers (length 79..117) where the first attempt loses or re-orders a segment but its
    final segment arrives, followed by a retry with any <=3 deliveries: the smallest scenario in which a
    stale partial chain could be completed by the re-sent one."""
    for first, second in ((0, 2), (1, 2), (2, 3)):
        for retry_first in range(4):
            pre = {"attempt0_delivery0": first, "attempt0_delivery1": second, "attempt1_delivery0": retry_first}
            for nm, fac in (("async", async_transfer), ("threaded", threaded_transfer)):
                yield Unit(f"faults3.{nm}.{first}{second}.{retry_first}", _ranged(fac, 79, 117, False, m=3, R=2),
                           fresh_checks=True, presets=pre, max_paths=100000, max_depth=2000)


def _ranged(factory, lo, hi, ff, m=0, R=1):
    inner = factory(hi, m, R, ff)

    def scenario(sx):
        class P:
            symbolic = sx.symbolic

            def __getattr__(self, n):
                return getattr(sx, n)

            def int_(self, name, a, b):
                if name == "length":
                    return sx.int_(name, lo, hi)
                return sx.int_(name, a, b)
        p = P()
        return inner(p)
    return scenario
