"""Independent reference model of a pack-table item (decoder / encoder).

Works on plain Python values and on sx proxies alike (only + - * & | >> << and
comparisons are used).  Written from the in.touch2 table semantics, not from
accessor.py: big-endian 1/2-byte field, optional bit position and mask, enum
index -> label with 'Unknown' outside the list, bool = (field == 1),
time = high byte ':' low byte, temperature by unit.
"""
from __future__ import annotations


def record_of(a):
    """Layout record of a live accessor object (used where no pinned record exists)."""
    return {
        "cls": type(a).__name__.replace("Gecko", "").replace("StructAccessor", ""),
        "type": a.type, "pos": a.pos, "size": a.length, "bitpos": a.bitpos,
        "mask": getattr(a, "bitmask", None) if a.bitpos is not None else None,
        "labels": list(a.items) if a.items is not None else None,
        "rw": a.read_write is not None,
    }


def field(rec, block, pos=None):
    pos = rec["pos"] if pos is None else pos
    if rec["size"] == 1:
        return block[pos]
    return block[pos] * 256 + block[pos + 1]


def raw(rec, block, pos=None):
    d = field(rec, block, pos)
    if rec["bitpos"] is not None:
        d = (d >> rec["bitpos"]) & rec["mask"]
    return d


def label_class(rec):
    """index -> canonical index of the first equal label; len(labels) stands for 'Unknown'."""
    labels = rec["labels"]
    first = {}
    out = []
    for i, s in enumerate(labels):
        first.setdefault(s, i)
        out.append(first[s])
    unknown = first.get("Unknown", len(labels))
    return out, unknown


def enum_class(rec, idx):
    """Canonical class of a (possibly symbolic) enum index, as an int expression."""
    from sx.core import Ite
    cls, unknown = label_class(rec)
    r = unknown
    for i in range(len(cls) - 1, -1, -1):
        r = Ite(idx == i, cls[i], r)
    return r


def enum_label(rec, idx):
    """Label of a concrete index."""
    labels = rec["labels"]
    return labels[idx] if 0 <= idx < len(labels) else "Unknown"


def decoded_differs(rec, old_block, new_block, pos=None):
    """Does the decoded value differ between the two blocks?  (temperatures: the stored reading)"""
    a, b = raw(rec, old_block, pos), raw(rec, new_block, pos)
    t = rec["type"]
    if t == "Enum":
        return enum_class(rec, a) != enum_class(rec, b)
    if t == "Bool":
        return (a == 1) != (b == 1)
    return a != b


def value(rec, block, pos=None, celsius=None):
    """Decoded value on concrete data (plain Python)."""
    d = raw(rec, block, pos)
    t = rec["type"]
    if t == "Bool":
        return d == 1
    if t == "Enum":
        return enum_label(rec, d)
    if t == "Time":
        return f"{d // 256:02}:{d % 256:02}"
    if rec["cls"] == "Temp":
        return d / 18.0 if celsius else (d + 320) / 10.0
    return d
