python3 - <<'P'
p='src/geckolib/utils/shell.py'
s=open(p).read()
s2=s.replace('f"Log version {self.facade.spa.log_version}"','f"Log Version {self.facade.spa.log_version}"')
assert s2!=s; open(p,'w').write(s2)
P
