python3 - <<'P'
p='src/geckolib/config.py'
s=open(p).read()
s2=s.replace("    if ConfigChange is None or ConfigChange.done():","    if ConfigChange is None:")
assert s2!=s; open(p,'w').write(s2)
P
