python3 - <<'P'
p='src/geckolib/driver/async_udp_protocol.py'
s=open(p).read()
s2=s.replace('''            while retry_count > 0:

                # Create the request
                request = create_func()
''','''            request = create_func()
            while retry_count > 0:
''')
assert s2!=s; open(p,'w').write(s2)
P
