python3 - <<'P'
p='src/geckolib/async_spa.py'
s=open(p).read()
s2=s.replace("        if handler.parms == self.sendparms:","        if handler.parms[2] == self.sendparms[2]:")
assert s2!=s; open(p,'w').write(s2)
P
