# move one item of a published table by one byte, and change a label elsewhere
python3 - <<'P'
import re
p='src/geckolib/driver/packs/inyt-log-50.py'
s=open(p).read()
s2=re.sub(r'("RhWaterTemp", )(\d+)', lambda m: m.group(1)+str(int(m.group(2))+1), s, count=1)
assert s2!=s
open(p,'w').write(s2)
P
