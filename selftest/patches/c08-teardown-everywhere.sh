python3 - <<'P'
p='src/geckolib/async_spa_manager.py'
s=open(p).read()
s2=s.replace('''        elif event == GeckoSpaEvent.RUNNING_PING_NO_RESPONSE:
            if self._spa_state == GeckoSpaState.CONNECTED:''','''        elif event == GeckoSpaEvent.RUNNING_PING_NO_RESPONSE:
            if self._spa_state != GeckoSpaState.IDLE:''')
assert s2!=s; open(p,'w').write(s2)
P
