python3 - <<'P'
p='src/geckolib/driver/async_peekablequeue.py'
s=open(p).read()
s2=s.replace("        self.get_nowait()\n        self._marked = False\n","        self.get_nowait()\n")
assert s2!=s; open(p,'w').write(s2)
P
