python3 - <<'P'
p='src/geckolib/driver/async_udp_protocol.py'
s=open(p).read()
s2=s.replace('''            while retry_count > 0:

                # Create the request
                request = create_func()
                # Queue it for delivery''','''            while retry_count >= 0:

                # Create the request
                request = create_func()
                # Queue it for delivery''')
assert s2!=s; open(p,'w').write(s2)
P
