python3 - <<'P'
p='src/geckolib/driver/udp_protocol_handler.py'
s=open(p).read()
s2=s.replace("        self._retry_count -= 1\n","        pass\n")
assert s2!=s; open(p,'w').write(s2)
P
