python3 - <<'P'
p='src/geckolib/driver/async_udp_protocol.py'
s=open(p).read()
s2=s.replace('''        _LOGGER.debug("Async get started")
        async with self.Lock:
''','''        _LOGGER.debug("Async get started")
        if True:
''')
assert s2!=s; open(p,'w').write(s2)
P
