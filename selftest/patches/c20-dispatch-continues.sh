python3 - <<'P'
p='src/geckolib/driver/udp_socket.py'
s=open(p).read()
s2=s.replace("                        receive_handler = handler\n                        break\n","                        receive_handler = handler\n")
assert s2!=s; open(p,'w').write(s2)
P
