python3 - <<'P'
p='src/geckolib/driver/udp_socket.py'
s=open(p).read()
s2=s.replace("send_handler = self._send_handlers.pop(0)","send_handler = self._send_handlers.pop()")
assert s2!=s; open(p,'w').write(s2)
P
