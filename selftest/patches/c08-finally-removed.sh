python3 - <<'P'
p='src/geckolib/async_spa_manager.py'
s=open(p).read()
s2=s.replace('''            await locator.discover()
            self._spa_descriptors = locator.spas
            del locator

        finally:
            await self._handle_event(''','''            await locator.discover()
            self._spa_descriptors = locator.spas
            del locator

        if True:
            await self._handle_event(''')
assert s2!=s; open(p,'w').write(s2)
P
