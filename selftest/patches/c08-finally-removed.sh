python3 - <<'P'
p='src/geckolib/async_spa_manager.py'
s=open(p).read()
s2=s.replace('''            del locator

        finally:
            await self._handle_event(''','''            del locator

        except ZeroDivisionError:
            raise
        else:
            await self._handle_event(''')
assert s2!=s; open(p,'w').write(s2)
P
