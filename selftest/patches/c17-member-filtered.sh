python3 - <<'P'
p='src/geckolib/config.py'
s=open(p).read()
s2=s.replace('    if not callable(getattr(_GeckoConfig, attr)) and not attr.startswith("__")','    if not callable(getattr(_GeckoConfig, attr)) and not attr.startswith("__") and "PAUSE" not in attr')
assert s2!=s; open(p,'w').write(s2)
P
