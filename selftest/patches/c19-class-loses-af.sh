python3 - <<'P'
p='src/geckolib/utils/snapshot.py'
s=open(p).read()
s2=s.replace(r"""(r"\[([0-9A-Fa-fx\\' ,]*)\]", self._re_data)""", r"""(r"\[([0-9A-Fx\\' ,]*)\]", self._re_data)""")
assert s2!=s; open(p,'w').write(s2)
P
