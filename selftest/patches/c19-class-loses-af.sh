python3 - <<'P'
p='src/geckolib/utils/snapshot.py'
s=open(p).read()
s2=s.replace("[0-9A-Fa-f]+", "[0-9A-F]+")
assert s2!=s; open(p,'w').write(s2)
P
