python3 - <<'P'
p='src/geckolib/async_spa.py'
s=open(p).read()
s2=s.replace('''        if not self.is_responding_to_pings:
            _LOGGER.debug("Cannot get reminders when spa not responding to pings")
            return []
''','')
assert s2!=s; open(p,'w').write(s2)
P
