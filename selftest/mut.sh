#!/bin/sh
# selftest/mut.sh <check> <patch-file|sed-expr file> [extra run args]
# Applies a patch to a scratch copy of /repo (never to /repo), runs the check against it, removes the copy.
set -e
CHK="$1"; PATCH="$(readlink -f "$2")"; shift 2
D=$(mktemp -d /tmp/mut.XXXXXX)
trap 'rm -rf "$D"' EXIT
git -C /repo archive HEAD | tar -x -C "$D"
# include uncommitted working-tree state of /repo
(cd /repo && git diff) | (cd "$D" && patch -p1 -s) 2>/dev/null || true
case "$PATCH" in *.sh) (cd "$D" && sh "$PATCH");; *) (cd "$D" && patch -p1 -s < "$PATCH");; esac
mkdir -p "$D/.ev" "$D/.rp"
VERIF_REPO="$D" VERIF_EVIDENCE_DIR="$D/.ev" VERIF_REPLAY_DIR="$D/.rp" /verif/run "$CHK" "$@" | sed "s|$D|<scratch>|g" | tail -${MUT_TAIL:-6}
