#!/bin/sh
# selftest/run_benign.sh [checks...]: every check must pass on behaviour-preserving rewrites of the library
D=$(mktemp -d /tmp/benign.XXXXXX)
git -C /repo archive HEAD | tar -x -C "$D"
(cd "$D" && git apply --whitespace=nowarn /verif/selftest/benign/behaviour-preserving-rewrites.diff) || { echo "patch does not apply"; rm -rf "$D"; exit 2; }
mkdir -p "$D/.ev" "$D/.rp"
RC=0
for c in ${*:-c01 c02 c03 c04 c05 c06 c07 c08 c11 c12 c13 c14 c15 c16 c17 c18 c19 c20}; do
  OUT=$(VERIF_REPO="$D" VERIF_EVIDENCE_DIR="$D/.ev" VERIF_REPLAY_DIR="$D/.rp" /verif/run "$c" 2>&1); R=$?
  echo "$c rc=$R $(echo "$OUT" | grep '^\[C' | cut -c1-150)"
  [ $R -ne 0 ] && { RC=1; echo "$OUT" | grep -E "^(VIOLATION|  unit|HARNESS|INCONC)" | head -5 | cut -c1-250; }
done
rm -rf "$D"
exit $RC
