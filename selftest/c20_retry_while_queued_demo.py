import sys, time, socket as _socket
sys.path.insert(0, sys.argv[1] + "/src")
from geckolib.driver import GeckoUdpSocket, GeckoVersionProtocolHandler
now=[0.0]
time.monotonic=lambda: now[0]
class S:
    def __init__(s): s.sent=[]
    def sendto(s,d,dest): s.sent.append(d)
    def recvfrom(s,n): raise _socket.timeout()
    def settimeout(s,t): pass
class H:
    last_destination=None
    def __init__(s,d): s.send_bytes=d
sock=GeckoUdpSocket(S()); sock._last_send_time=-1
for i in range(3): sock.queue_send(H(b"B%d"%i),("1.2.3.4",1))
req=GeckoVersionProtocolHandler.request(1,parms=("1.2.3.4",1,b"SPA",b"IOS"))
req._timeout_in_seconds=0.05; req._retry_count=2; req._start_time=0.0
sock.add_receive_handler(req); sock.queue_send(req,("1.2.3.4",1,b"SPA",b"IOS"))
for k in range(40):
    sock._process_send_requests()
    for h in list(sock._receive_handlers): h.loop(sock)
    sock._cleanup_handlers()
    now[0]+=0.03
n=len([d for d in sock._socket.sent if d.startswith(b"<PACKT>")])
print("request transmitted", n, "times; retries configured 2; still registered:", req in sock._receive_handlers)
sys.exit(0 if n==3 else 1)
