#!/bin/sh
# selftest/try_mutants.sh <prop-lower> <mutants-dir> [checks...]   e.g.  c02 /tmp/wt/c02/_mutants c02 c18
# For every mN.diff: confirm (tests green, demo fails with / passes without), then run our check(s) against it.
P="$1"; M="$2"; shift 2; CHECKS="${*:-$P}"
for d in "$M"/m*.diff; do
  n=$(basename "$d" .diff)
  D=$(mktemp -d /tmp/mutx.XXXXXX)
  git -C /repo archive HEAD | tar -x -C "$D"
  if ! (cd "$D" && git apply --whitespace=nowarn "$d" 2>/dev/null || patch -p1 -s < "$d"); then echo "$P/$n: PATCH DOES NOT APPLY"; rm -rf "$D"; continue; fi
  T=$(cd "$D" && /venv/bin/python -m pytest -q -p no:cacheprovider -x 2>&1 | tail -1)
  /venv/bin/python "$M/${n}_demo.py" "$D" >/dev/null 2>&1; RM=$?
  /venv/bin/python "$M/${n}_demo.py" /repo >/dev/null 2>&1; RC=$?
  echo "== $P/$n: tests[$T] demo(mutant)=$RM demo(clean)=$RC"
  for c in $CHECKS; do
    mkdir -p "$D/.ev" "$D/.rp"
    OUT=$(VERIF_REPO="$D" VERIF_EVIDENCE_DIR="$D/.ev" VERIF_REPLAY_DIR="$D/.rp" timeout ${MUT_TIMEOUT:-600} /verif/run "$c" --tier ${MUT_TIER:-quick} 2>&1); RC2=$?
    echo "   check $c -> exit $RC2 : $(echo "$OUT" | grep -c '^VIOLATION') violation line(s); $(echo "$OUT" | grep 'unit=' | head -2 | cut -c1-220 | tr '\n' '|')"
  done
  rm -rf "$D"
done
