import sys, os, tempfile
sys.path.insert(0, sys.argv[1] + "/src")
from geckolib.utils.snapshot import GeckoSnapshot
P = "2020-12-08 19:53:28,310 geckolib.utils.shell INFO "
def snap(name, fill):
    return [P + f"Snapshot ({name})", P + "intouch version EN 88 v15.0", P + "intouch version CO 89 v11.0",
            P + "Spa pack inYT 375 v6.0", P + "Config version 61", P + "Log version 61", P + str([hex(fill)] * 1024)]
with tempfile.TemporaryDirectory() as d:
    f = os.path.join(d, "log.txt")
    open(f, "w").write("\n".join(snap("first", 1) + snap("second", 2)) + "\n")
    s = GeckoSnapshot.parse_log_file(f)
    print([x.name for x in s])
    sys.exit(0 if [x.name for x in s] == ["first", "second"] and s[0].bytes == bytes([1]) * 1024 else 1)
