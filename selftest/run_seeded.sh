#!/bin/sh
# selftest/run_seeded.sh [id-glob]  - apply every kept seeded change to a scratch copy of /repo and run the checks
# named in its meta.json (detected_by); prints one line per change.  Scratch copies live under /tmp and are removed.
G="${1:-*}"
for d in /verif/seeded/$G/; do
  id=$(basename "$d")
  checks=$(python3 -c "import json,sys; print(' '.join(json.load(open('$d/meta.json'))['detected_by']))")
  D=$(mktemp -d /tmp/seed.XXXXXX)
  git -C /repo archive HEAD | tar -x -C "$D"
  if ! (cd "$D" && git apply --whitespace=nowarn "$d/patch.diff" 2>/dev/null); then echo "$id: PATCH DOES NOT APPLY"; rm -rf "$D"; continue; fi
  res=""
  for c in $checks; do
    mkdir -p "$D/.ev" "$D/.rp"
    VERIF_REPO="$D" VERIF_EVIDENCE_DIR="$D/.ev" VERIF_REPLAY_DIR="$D/.rp" timeout ${MUT_TIMEOUT:-900} /verif/run "$c" --tier quick >"$D/out.txt" 2>&1; rc=$?
    res="$res $c:rc=$rc:$(grep -c '^VIOLATION' "$D/out.txt")"
  done
  echo "$id ->$res"
  rm -rf "$D"
done
