#!/bin/sh
# selftest/keep_mutant.sh <PROP> <mutants-dir> <mN> <id-suffix> "<checks that catch it>" "<note>"
P="$1"; M="$2"; N="$3"; SUF="$4"; CATCH="$5"; NOTE="$6"
ID="$P-$SUF"; D="/verif/seeded/$ID"; mkdir -p "$D"
cp "$M/$N.diff" "$D/patch.diff"; cp "$M/${N}_demo.py" "$D/demo.py"; cp "$M/$N.txt" "$D/description.txt"
python3 - "$P" "$ID" "$D" "$CATCH" "$NOTE" <<'PY'
import json,sys
P,ID,D,CATCH,NOTE=sys.argv[1:6]
desc=open(D+"/description.txt").read().strip()
meta={"id":ID,"property":P,"source":"independent sub-agent given only the property text and a scratch worktree",
 "breaks":P,"needs_to_manifest":desc,
 "confirmed":{"existing_tests":"103 passed, 5 xfailed with the patch applied (scratch copy of /repo HEAD)",
              "demo":"demo.py <repo-root> exits 1 with the patch applied and 0 on the clean tree",
              "how":"selftest/try_mutants.sh (scratch copy under /tmp, removed afterwards)"},
 "detected_by":CATCH.split(),"notes":NOTE}
json.dump(meta,open(D+"/meta.json","w"),indent=1)
PY
echo kept $ID
