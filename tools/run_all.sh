#!/bin/sh
# tools/run_all.sh [quick|thorough]  - run every registered check in turn, print one line each
T=${1:-quick}
cd "$(dirname "$0")/.."
for c in c01 c02 c03 c04 c05 c06 c07 c08 c11 c12 c13 c14 c15 c16 c17 c18 c19 c20; do
  S=$(date +%s); OUT=$(./run $c --tier $T 2>&1); RC=$?; E=$(( $(date +%s) - S ))
  echo "$c rc=$RC ${E}s :: $(echo "$OUT" | grep '^\[C' | cut -c1-200)"
  echo "$OUT" | grep -E "^(VIOLATION|HARNESS-ERROR|INCONCLUSIVE)" | head -3 | cut -c1-300
done
