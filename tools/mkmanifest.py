"""Regenerate MANIFEST.json from the table below (python3 tools/mkmanifest.py)."""
import json
import os

ROOT = os.path.dirname(os.path.dirname(os.path.abspath(__file__)))

TECH = "symbolic execution of the real geckolib code over z3 (proxy objects, bit-vectors/arrays/FP), exhaustive path exploration within stated bounds, counterexample replay on the unmodified code; a unit the solver cannot decide exits 3 (inconclusive), after a search for a replayable counterexample on random concrete inputs - never a pass"

CHECKS = {
    "C01": dict(
        text="Real GeckoAsyncStructure.get on a virtual event loop and real GeckoStructure.retry_request/"
             "_on_status_block_received, fed by the segment chain the real GeckoSimulator produces for the very request "
             "the client sent; spa block, client block, start and length symbolic, and per attempt an arbitrary sequence "
             "of delivered datagrams (each any segment of the chain: loss, duplication, re-ordering). Success => requested "
             "bytes are the spa's and no foreign byte (skolem index); failure => block object untouched; <= retry count "
             "requests with fresh sequence numbers; fault-free twin succeeds for every (start,length); two transfers in a row on "
             "one threaded structure, the first dying by time-out after a prefix; two structures transferring at once.",
        note="Bounded: <=2 segments/2 deliveries per attempt/2 attempts (quick), <=3/3/2 (thorough); fault-free twin for "
             "length <=200 (quick) / <=312 (thorough). Timeout scaled to 3 polls (config data, not code).",
        ref="5/C01"),
    "C02": dict(
        text="Every distinct item signature of the 151 shipped cfg/log tables (class, type, width, bit position, labels, "
             "MaxItems, mask, RW) is decided once through the real _set_value/async_set_value/_get_value of the shipped "
             "accessor object with a symbolic position, a symbolic 1024-byte block and a symbolic value (all labels, "
             "booleans, 0..255, 0..65535, hh:mm, string forms); every item is mapped to its signature and its concrete "
             "position checked. Multi-step units: write / sibling bits change on the spa / write again per bit-field shape, "
             "the same tag through two tables; the temperature accessor's read->write-back lemma over all 65536 words on "
             "both write paths in IEEE-754 (z3 FP). Exhaustive over data, no bound; thorough adds every pair of "
             "overlapping items of a table.",
        note="Reference device model = big-endian store; independent field-width rule; decimal temperature inputs are "
             "C14's. Known findings: PurgeDelayTimer (no MaxItems), WaterDetected (pos 2658).",
        ref="5/C02"),
    "C03": dict(
        text="Real replace_status_block_segment (both structure classes), status_block_changed and Observable on a "
             "symbolic old block, a symbolic patch (offset, 1..4 bytes) and one shipped accessor per shape at a symbolic "
             "position; the oracle (notify iff decoded value changed, once per distinct observer, old/new arguments, "
             "observers see the new block) uses an independent reference decoder. Three updates in a row with a unit "
             "switch between two updates of a temperature or a repeated patch; two refreshes through the real transfer code of "
             "both classes; an observer registered after a first update. All watch/unwatch scripts of <=4 ops with updates inside.",
        note="Bounded: patch <= 4 bytes, enums <= 9 labels (quick) / all (thorough), two observers; floats compared via "
             "the ratio abstraction justified by C14's monotone lemma.",
        ref="5/C03"),
    "C04": dict(
        text="Every message constructor of the protocol package is run with symbolic fields, compared byte for byte with "
             "an independent layout, offered to can_handle of every standard handler class (exactly the peer accepts) and "
             "decoded by the peer's handle (attributes equal inputs). Packet framing is decided with fully symbolic "
             "identifiers and payload: the regular expression the code passes to re.search is turned into an exact "
             "term-level model of CPython's leftmost/greedy/lazy matching (sx/rx.py), so a payload that shifts the split "
             "is found by the solver and replayed on the real re (also when the pattern is compiled at import time). Reply "
             "addressing on symbolic identifiers, also for one handler fed by two peers and for two handler instances in one "
             "process; names through the configured encoding (latin-1 / UTF-8 model).",
        note="Bounded: framing payload <= 40 (quick) / <= 48 (thorough) bytes, segment payload lengths sampled in quick and "
             "0..255 in thorough, <=2/3 reminder records, names <= 3 bytes; FILES is an exhaustive concrete loop over the "
             "895 shipped combinations. Known findings: SETWC and WCREQ are claimed by no standard handler.",
        ref="5/C04"),
    "C05": dict(
        text="Real STATP/STATQ handlers of the async and the threaded client, the real on-update callbacks and the real "
             "structure patching, driven through the real first-match dispatch (threaded) / async_handle+async_handled "
             "(async): symbolic block, symbolic change positions and values, an arbitrary pending-change list left in "
             "the handler before the first message, refreshes interleaved. The final block must equal the reference "
             "fold of the updates (array equality by skolem index); exactly one STATQ per STATP carrying the next protocol "
             "number; bursts of updates through the real consume() loop; two client instances in one process, each "
             "block the fold of its own updates only.",
        note="Bounded: <=2 (quick) / <=3 (thorough) messages of 0..3 changes, refresh <=3 bytes, pending list <=2.",
        ref="5/C05"),
    "C06": dict(
        text="Real GeckoAsyncUdpProtocol.get, wait_for_response and the real asyncio.Lock on a virtual loop: retry count, "
             "what arrives before every poll (nothing / matching reply / foreign datagram), number of callers, their start "
             "slots and which requests are answered are symbolic choices explored exhaustively; transmissions <= retry "
             "count, each attempt freshly built, the handler is returned iff a reply was delivered for it, completion "
             "within retry x (timeout+pause+poll), one request in flight, FIFO service, all callers complete; a holder "
             "ending abnormally; the real ping loop and the five connection gates with a symbolic real ping age; the "
             "library's own call sites with lost replies or a busy connection and symbolic counters; the real refresh loop; two "
             "connections in one process; a pause of zero between retries.",
        note="Bounded: retry <= 2/3, <= 2/3 callers, timeouts scaled to 3 polls; loop stalls not modelled as unbounded "
             "delays.",
        ref="5/C06"),
    "C07": dict(
        text="Inductive over atomic segments (one Handle._run() on a virtual loop): every consumer that the real "
             "GeckoAsyncSpa._connect registers (collected at run time) and a waiting request, from an arbitrary queue/mark "
             "pre-state with a symbolic head datagram - a capable consumer takes the head exactly once and clears the mark, "
             "an incapable one changes nothing; the unhandled consumer's two segments against the four interference "
             "classes; framed packets with symbolic identifiers, foreign sender or malformed inner framing (also right "
             "after a valid packet) have no effect; an application callback that suspends; byte-identical datagrams; two connections; a 6-segment run of the real unhandled consumer against an arbitrary "
             "environment bounds the time a datagram spends at the head.",
        note="Bounded datagram lengths; whole-system statement follows from the atomicity of segments between suspending "
             "awaits (assumption).",
        ref="5/C07"),
    "C08": dict(
        text="One step of the real GeckoAsyncSpaMan._handle_event from every invariant-satisfying manager state (10 states x "
             "facade/spa/descriptors/sensors) for every enabled event, against the transition table transcribed from the "
             "docstrings; invariants re-established (CONNECTED only with a live facade on a connected spa, facade only with "
             "a connected spa), ready/teardown bracket conditions and status text at every delivery; real async_reset "
             "(three entry points) from every state; locate and connect brackets around phase doubles that return, raise "
             "or emit any allowed sub-event prefix or are cancelled; reset issued from the spa's own task; pairs of concurrent "
             "runtime events with a suspending client handler; status texts pinned in the check.",
        note="Control-state exploration by the engine's exhaustive choice mechanism (data is symbolic only for radio "
             "values); inductive for sequential histories; concurrency covered for event pairs (thorough: also from the error "
             "states). "
             "I/O phases and the facade constructor are doubles.",
        ref="5/C08"),
    "C11": dict(
        text="Construction of the real GeckoAsyncFacade for all 895 shipped combinations (concrete, maximally wired block); "
             "then, per representative of every facade-relevant table signature, the block is replaced by a fully symbolic "
             "1024-byte array and every read-only member of the facade and its devices (65-130 members) is evaluated, one "
             "member per exploration; enum values outside the label list must read 'Unknown'; watercare with a symbolic "
             "mode byte or None (also through the threaded client's reply callback); reminders with symbolic records; the error "
             "sensor with a sliding window of symbolic flags.",
        note="Per-member exploration (members do not multiply); error flags 2 at a time; construction with symbolic "
             "outputs is C12's part. Float formatting is an opaque stub. Known findings: 18 combinations (inXM log 2, "
             "MrSteam, MAS-IBC-32K) cannot build a facade.",
        ref="5/C11"),
    "C12": dict(
        text="Real GeckoAsyncFacade.__init__/_scan_outputs and the threaded GeckoFacade._on_connected/scan_outputs on blocks "
             "whose output-configuration items are symbolic over every label and out-of-range byte (one output of every "
             "label-list class, two outputs of the same class; thorough adds class pairs and triples), for one "
             "representative of every inventory-relevant table signature; three outputs of one class over the pump labels. "
             "Oracle: independent set-based rule over the tables' own key lists, in table order; pump demand/mode lists, "
             "classes, sensors, distinct keys/unique ids, lookup by key, a second facade, re-scan after re-wiring, a structure "
             "rebuilt with another pack's tables; device table pinned in the check.",
        note="Bounded in the number of simultaneously symbolic outputs (2 quick / 3 thorough); other bytes zero. "
             "PYTHONHASHSEED fixed by ./run. Known findings: three table families cannot build a facade at all.",
        ref="5/C12"),
    "C13": dict(
        text="Real device commands (switch on/off async and threaded, pump mode, target temperature, temperature unit, "
             "watercare mode) through the real accessor write path, the real SPACK/SETWC encoders and the real "
             "GeckoAsyncUdpProtocol.get on a virtual loop; a reference spa applies the write or key press and echoes a "
             "STATP that the real handler installs. Symbolic: the current state of the items the command touches, the "
             "argument, both counters. Exactly one well-formed command with pack type, versions and command-range "
             "sequence, the item reads the requested value after the echo, no datagram when already in the requested state; "
             "a first command whose every transmission is lost leaves the reported state and is sent again when repeated; "
             "three-command sequences on pump demands sharing a word; a unit command followed by a temperature command; "
             "watercare from any prior belief of the client.",
        note="One command per path; wiring from the 6 configurations of the 34 shipped snapshots; three concrete "
             "temperature arguments per unit (all decimals are C14's); reference spa semantics are an assumption.",
        ref="5/C13"),
    "C14": dict(
        text="Real GeckoTempStructAccessor and GeckoWaterHeater under IEEE-754 double semantics (z3 FloatingPoint): "
             "decode formula, enc(dec(r)) == r for all 65536 raw words in both units (sync and async path), decimal "
             "inputs k/10 (k/100 thorough) within one device step and order preserving, strict monotonicity of the "
             "decoder, unit symbol/limits/operation ladder on every distinct heater layout of the 895 combinations, also after a "
             "unit command that is never answered.",
        note="z3 qffpbv tactic decides the FP lemmas; heater units compare temperatures through raw words (ratio "
             "abstraction) justified by the monotone.* lemma units of the same check.",
        ref="5/C14"),
    "C17": dict(
        text="Real set_config_mode from an arbitrary (symbolic) prior table against the Active/Idle tables found by "
             "reflection; real GeckoAsyncFacade._on_config_device_change on symbolic pump/blower states (active iff some "
             "pump or blower is on); real config_sleep, asyncio.wait and asyncio.sleep on a virtual loop whose clock is a "
             "z3 Real: start offsets, delays and switch instants are free reals and every timer ordering is explored - "
             "each sleeper wakes exactly at min(deadline, first switch inside its sleep), also when it sleeps again at once "
             "across two switches and for a delay of zero; the selection also through real update notifications, one device at a time.",
        note="Bounded: <=2 sleepers/1 switch and 2 looping sleepers/2 switches (quick), <=3/2 (thorough); clock readings are mathematical reals; distinct "
             "events at distinct instants.",
        ref="5/C17"),
    "C18": dict(
        text="Behavioural equivalence of every shipped item - the real accessor object built by the current table and "
             "accessor code - with an independent reference decoder/encoder built from the layout pinned at the audited "
             "commit, on a symbolic block, position and value (read, write triple, writability), per pinned record shape; "
             "items whose declaration differs from the pinned record are compared at their concrete positions, so any "
             "layout change yields a concrete block on which old and new decode differently. Plus addressability of every "
             "item, key lists, module attributes, file naming and the FILES naming round trip; the naming a spa reports is "
             "mapped to the declaring modules by both clients (differing versions; two platforms with equal numbers) and the "
             "connected spa exposes every published item.",
        note="Pinned layout generated by ast from commit 236b7b1; new modules allowed. Side conditions on module "
             "attributes/keys/naming are finite concrete comparisons. Known findings: PurgeDelayTimer, WaterDetected.",
        ref="5/C18"),
    "C15": dict(
        text="Real GeckoAsyncLocator.discover with its hello consumer and broadcast loop on the real AsyncTasks manager, on a "
             "virtual loop with a fake broadcast endpoint: number of replies, arrival slot of each, originating spa "
             "(duplicates, both orders), symbolic name bytes (any latin-1 byte incl. '|'), identifier / address filters. "
             "Each answering spa listed once with identifier, name and address intact, only the requested identifier, "
             "upper and lower bounds on the return time for every case, endpoint closed once, no LOC task or broadcast "
             "afterwards, also with event handlers that suspend; bursts of 17-40 spas; a second locator in the same process; a "
             "non-ASCII identifier; the threaded locator's de-duplication step and found flag.",
        note="Bounded: <=2/3 replies, 4 arrival slots, 2 spas, names <=2 bytes; discovery timeouts scaled to 6 polls.",
        ref="5/C15"),
    "C16": dict(
        text="One inductive step of both real sequence-counter implementations from an arbitrary in-range pre-state "
             "(covers every call history), and the sequence byte of every real request factory of the async and the "
             "threaded client with symbolic counters; a second (thorough: third) thread's call stepped in at every lock "
             "boundary of the threaded counter; instance independence and a long run through the public API; the numbers handed out while the real "
             "GeckoAsyncUdpProtocol.get retries under per-attempt loss, with an outside party drawing during the wait (<= 3 attempts).",
        note="Bit-vector model of Python ints with discharged no-overflow obligations; preemption only at lock "
             "boundaries (between them the lock discipline - every counter access under the socket lock - is asserted).",
        ref="5/C16"),
}

CHECKS["C19"] = dict(
    text="The real GeckoShell.version_strings/do_snapshot write the snapshot header for a symbolic snapshot name (arbitrary "
         "characters) and distinct version fields, and the real GeckoSnapshot.parse reads the lines back: its 15 regular "
         "expressions (parsed by CPython's re._parser) run in a backtracking matcher with CPython's semantics that is "
         "itself executed on the symbolic text, so cross-talk between a name and any pattern is found by the solver. One "
         "data element over every byte value, whole blocks concretely and through a real log file; two traffic logs in a row "
         "with non-uniform segment sizes on a block holding every quote/backslash pair and bracketed runs; every shipped "
         "snapshot file is parsed, loaded into the real simulator (fresh, and one instance for all) and served back unchanged "
         "(full and partial ranges); several snapshots in one log; a path parsed twice; a second spa on one shell.",
    note="Bounded: names <= 3 (quick) / 4 (thorough) characters; version digits concrete; traffic-log and shipped-file "
         "clauses are concrete runs over choices of segmentation. Four defects found here are fixed in /repo.",
    ref="5/C19")

CHECKS["C20"] = dict(
    text="The real engine step functions of the threaded GeckoUdpSocket executed one by one with a symbolic real-valued "
         "clock: one send step from an arbitrary queue/clock state (send iff the throttle interval has passed, head of the "
         "queue, send instant stamped => FIFO and pacing by induction) plus a multi-iteration pacing run; first-match "
         "dispatch over <=4 handlers with symbolic accept/raise behaviour and exception isolation; the life of a real "
         "request handler over a stepped engine loop with free timeout, retry count, time steps and answer instant "
         "(exactly N retransmissions then removal / removal at the answer and silence afterwards), also behind a send "
         "backlog; a cross-thread add between the two locked sections of the cleanup; the blocking client's real handshake "
         "against the real simulator under symbolic loss bits, a lost status segment, 0..3 lost requests per step and the "
         "simulator's own drops; removal keeps registration order.",
    note="Engine iterations stepped in _thread_func order, no real threads; socket double; handshake on the concrete "
         "default snapshot with 5 (quick) / 8 (thorough) loss bits. One defect found here is fixed in /repo.",
    ref="5/C20")

NOT_APPLICABLE = {
    "C09": "whole-stack liveness/bounded-time recovery over >= 12 concurrently polling tasks and fault scripts lasting "
           "hundreds of virtual seconds: no inductive decomposition within reach of bounded symbolic execution "
           "(DESIGN.md section 7)",
    "C10": "quantifies over program points (await points) with resource accounting as the observable; making the crash "
           "point symbolic only selects which concrete run to perform, i.e. enumeration, not a solver verdict "
           "(DESIGN.md section 7)",
}

PENDING = "check not built yet in this session (see DESIGN.md section 5 for the planned encoding)"

ALL = [f"C{i:02d}" for i in range(1, 21)]


def main():
    checks = []
    for pid in ALL:
        if pid not in CHECKS:
            continue
        c = CHECKS[pid]
        low = pid.lower()
        checks.append({
            "property_id": pid,
            "quick_cmd": f"./run {low} --tier quick",
            "thorough_cmd": f"./run {low} --tier thorough",
            "evidence_file": f"evidence/{pid}.json",
            "replay_cmd_template": f"./run {low} --replay {{path}}",
            "engine": "sx",
            "level_claimed": {"category": "model_checking", "text": c["text"], "design_ref": c["ref"]},
            "level_note": c["note"],
            "technique": c.get("technique", TECH),
        })
    na = []
    for pid in ALL:
        if pid in CHECKS:
            continue
        na.append({"property_id": pid, "reason": NOT_APPLICABLE.get(pid, PENDING)})
    m = {
        "version": 1,
        "setup_cmd": "./setup.sh",
        "hooks": {
            "guard": "GECKOLIB_VERIF",
            "enable": "none needed: the instrumenting loader and shims live in /verif and act at import time; /repo carries no hook commits",
            "baseline_off_cmd": "cd /repo && /venv/bin/python -m pytest -ra -q -p no:cacheprovider --timeout=900 --continue-on-collection-errors",
            "source_commits": [],
            "add_only": True,
        },
        "engines": [{
            "name": "sx",
            "path": "sx/",
            "serves_properties": sorted(CHECKS),
            "kind_free_text": "proxy-based symbolic executor for Python over z3 (BV32 ints with overflow obligations, "
                              "IEEE-754 floats, lazy functional byte strings over arrays), DFS by re-execution, "
                              "per-path concolic cross-check, fresh-interpreter replay",
        }],
        "checks": checks,
        "not_applicable": na,
        "notes": "Exit codes: 0 held / 1 VIOLATION (replayed on the unmodified code) / 3 inconclusive or harness error. "
                 "Genuine defects: see known_findings.json and DESIGN.md section 6.",
    }
    with open(os.path.join(ROOT, "MANIFEST.json"), "w") as f:
        json.dump(m, f, indent=1)
    print("MANIFEST.json:", len(checks), "checks,", len(na), "not applicable")


if __name__ == "__main__":
    main()
