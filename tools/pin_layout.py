"""Extract the declared layout of every pack module by parsing its source (no geckolib code runs).

    python3 tools/pin_layout.py <packs dir> <out.json.gz>     # write a pinned layout
Also imported by checks/c18.py to extract the *current* declared layout the same way.
"""
import ast
import glob
import gzip
import json
import os
import sys

ACC = {"GeckoByteStructAccessor": ("Byte", ["tag", "pos", "rw"]),
       "GeckoWordStructAccessor": ("Word", ["tag", "pos", "rw"]),
       "GeckoTimeStructAccessor": ("Time", ["tag", "pos", "rw"]),
       "GeckoTempStructAccessor": ("Temp", ["tag", "pos", "rw"]),
       "GeckoBoolStructAccessor": ("Bool", ["tag", "pos", "bitpos", "rw"]),
       "GeckoEnumStructAccessor": ("Enum", ["tag", "pos", "bitpos", "items", "size", "maxitems", "rw"])}


def _prop(cls, name):
    for n in cls.body:
        if isinstance(n, ast.FunctionDef) and n.name == name:
            for st in n.body:
                if isinstance(st, ast.Return):
                    return st.value
    return None


def module_layout(path):
    with open(path) as f:
        tree = ast.parse(f.read())
    out = {}
    for cls in [n for n in tree.body if isinstance(n, ast.ClassDef)]:
        d = {"class": cls.name}
        for p in ("name", "type", "revision", "version", "begin", "end", "output_keys", "all_device_keys",
                  "user_demand_keys", "error_keys"):
            v = _prop(cls, p)
            if v is not None:
                d[p] = ast.literal_eval(v)
        acc = _prop(cls, "accessors")
        if acc is not None:
            items = {}
            for k, v in zip(acc.keys, acc.values):
                key = ast.literal_eval(k)
                fn = v.func.id
                kind, names = ACC[fn]
                args = [ast.literal_eval(a) for a in v.args[1:]]
                rec = dict(zip(names, args))
                rec["cls"] = kind
                if isinstance(rec.get("items"), str):
                    rec["items"] = rec["items"].split("|")
                items[key] = rec
            d["items"] = items
        out[cls.name] = d
    return out


def packs_layout(packs_dir):
    res = {}
    for f in sorted(glob.glob(os.path.join(packs_dir, "*.py"))):
        b = os.path.basename(f)[:-3]
        if b == "__init__":
            continue
        res[b] = module_layout(f)
    return res


if __name__ == "__main__":
    lay = packs_layout(sys.argv[1])
    with gzip.open(sys.argv[2], "wt") as f:
        json.dump(lay, f, sort_keys=True)
    n = sum(len(c.get("items", {})) for m in lay.values() for c in m.values())
    print(len(lay), "modules", n, "items")
